#!/venv/bin/python
"""tools/mkprompts.py <round> <outdir>: prompt texts for the next round of
seeded changes.  A prompt contains the text of one property (from
properties.jsonl), the practicalities, and one-line summaries (written by the
earlier sub-agents themselves) of the changes already proposed - nothing about
the checks."""
import glob
import json
import os
import sys

ROOT = os.path.dirname(os.path.dirname(os.path.abspath(__file__)))
TEMPLATE = open(os.path.join(ROOT, 'tools', 'seed_prompt.txt')).read()


def main():
    rnd, out = sys.argv[1], sys.argv[2]
    os.makedirs(out, exist_ok=True)
    for line in open(os.path.join(ROOT, 'properties.jsonl')):
        p = json.loads(line)
        pid = p['id']
        prev = []
        for m in sorted(glob.glob(os.path.join(ROOT, 'seeded', pid + '-*',
                                               'meta.json'))):
            meta = json.load(open(m))
            prev.append('  - (%s) %s' % (', '.join(meta.get('files', [])),
                                         meta.get('summary', '')[:420]))
        text = TEMPLATE
        for k, v in (('@ID@', pid), ('@TITLE@', p['title']),
                     ('@STATEMENT@', p['statement']),
                     ('@QUANT@', p['quantifier']['text']),
                     ('@WT@', '/tmp/seed/r%s-%s' % (rnd, pid)),
                     ('@OUT@', '/tmp/seed/out%s/%s' % (rnd, pid)),
                     ('@PREV@', '\n'.join(prev))):
            text = text.replace(k, v)
        open(os.path.join(out, pid + '.txt'), 'w').write(text)


main()

#!/venv/bin/python
"""Prints the markdown table of seeded changes from seeded/*/meta.json."""
import json
import os

ROOT = os.path.dirname(os.path.dirname(os.path.abspath(__file__)))
rows = []
for name in sorted(os.listdir(os.path.join(ROOT, 'seeded')),
                   key=lambda n: (n.split('-')[0], int(n.split('-')[1]))):
    m = json.load(open(os.path.join(ROOT, 'seeded', name, 'meta.json')))
    det = m.get('detected_by', {})
    # (with the clause of the first signature: a detection counts only
    # when it names what the change breaks)
    hit = sorted('%s (%s)' % (k.split()[0], (v.get('signatures') or [
        '|?'])[0].split('|')[1]) for k, v in det.items()
        if v['verdict'] == 'DETECTED')
    miss = sorted(k.split()[0] for k, v in det.items()
                  if v['verdict'] == 'MISSED')
    summary = (m.get('summary') or '').replace('\n', ' ').replace('|', '/')
    if len(summary) > 150:
        summary = summary[:147] + '...'
    rows.append('| %s | %s | %s | %s | %s |' % (
        name, ', '.join(m.get('files', []))[:60], summary,
        ', '.join(sorted(set(hit))) or '-',
        ', '.join(sorted(set(miss) - {h.split()[0] for h in hit})) or '-'))
print('| change | files | what it does | detected by (quick tier) | '
      'pointed at, not flagged |')
print('|---|---|---|---|---|')
print('\n'.join(rows))

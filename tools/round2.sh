#!/bin/bash
# tools/round2.sh <ID>: confirm round-2 seeds of a property and run its check
cd "$(dirname "$0")/.."
id=$1
for n in 1 2; do
  tools/seedcheck.py confirm /tmp/seed/out2/$id $n $id-$((n+2)) | grep -E '"confirmed"|"pytest"' | tr '\n' ' '; echo
done
for n in 3 4; do
  [ -d seeded/$id-$n ] && tools/seedcheck.py run $id-$n $id "${@:2}" 2>&1 | grep -v KNOWN
done
git -C /repo worktree remove --force /tmp/seed/r2-$id 2>/dev/null

#!/bin/bash
# tools/matrixpart.sh <name>...: the seeded changes named on the command line
# against the check of their own property (one stream of a matrix that is
# run as several parallel streams)
cd "$(dirname "$0")/.."
for n in "$@"; do
  pid=${n%%-*}
  tools/seedcheck.py run $n $pid 2>&1 | grep -E "^C[0-9]+ vs"
done

#!/bin/bash
# tools/quiet.sh <tier> <seed>...: every check on the unchanged tree must exit 0
cd "$(dirname "$0")/.."
tier=$1; shift
for seed in "$@"; do
  for id in C01 C02 C03 C04 C05 C06 C07 C08 C09 C10 C11 C12 C13 C14 C15 C16 C17 C18 C19 C20; do
    out=$(VERIF_SEED=$seed VERIF_EVIDENCE_DIR=/tmp/quiet-ev ./check $id $tier 2>&1); rc=$?
    echo "$out" | tail -1 | sed "s/^/rc=$rc /"
    if [ $rc -ne 0 ]; then echo "$out" | grep -E "VIOLATION|signature|detail|HARNESS" | cut -c1-400; fi
  done
done

#!/bin/bash
# Runs every seeded change against the check of its own property (and any
# extra property ids given as arguments); results go into seeded/*/meta.json
cd "$(dirname "$0")/.."
for d in seeded/*/; do
  n=$(basename $d)
  pid=${n%%-*}
  tools/seedcheck.py run $n $pid "$@" 2>&1 | grep -E "^C[0-9]+ vs"
done

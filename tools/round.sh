#!/bin/bash
# tools/round.sh <round> <ID> [extra check ids]: confirm the two seeded
# changes delivered for a property in /tmp/seed/out<round>/<ID>, store them
# as seeded/<ID>-<2*round-1>, <ID>-<2*round>, run the property's check
# against them and remove the sub-agent's worktree
cd "$(dirname "$0")/.."
r=$1; id=$2
a=$((2*r-1)); b=$((2*r))
i=0
for n in $a $b; do
  i=$((i+1))
  [ -f /tmp/seed/out$r/$id/change$i.diff ] || continue
  tools/seedcheck.py confirm /tmp/seed/out$r/$id $i $id-$n | grep -E '"confirmed"|"pytest"' | tr '\n' ' '; echo
done
for n in $a $b; do
  [ -d seeded/$id-$n ] && tools/seedcheck.py run $id-$n $id "${@:3}" 2>&1 | grep -v KNOWN
done
git -C /repo worktree remove --force /tmp/seed/r$r-$id 2>/dev/null

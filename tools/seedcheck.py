#!/venv/bin/python
"""Confirm a seeded change and run checks against it.

  tools/seedcheck.py confirm <src_dir> <N> <dest_name>   # verify + store under seeded/<dest_name>/
  tools/seedcheck.py run <dest_name> [ID ...] [--tier quick]  # run checks against seeded change

Uses a scratch worktree of /repo under /tmp (removed afterwards); /repo itself
is never modified.  Checks are pointed at the scratch tree through YAQL_SRC.
"""
import json
import os
import shutil
import subprocess
import sys
import time

ROOT = os.path.dirname(os.path.dirname(os.path.abspath(__file__)))
PY = '/venv/bin/python'


def sh(cmd, cwd=None, env=None, timeout=1800):
    e = dict(os.environ)
    e.update(env or {})
    p = subprocess.run(cmd, shell=True, cwd=cwd, env=e, timeout=timeout,
                       stdout=subprocess.PIPE, stderr=subprocess.STDOUT,
                       text=True)
    return p.returncode, p.stdout


def worktree():
    wt = '/tmp/sv-%d' % os.getpid()
    rc, out = sh('git -C /repo worktree add -q --detach %s HEAD' % wt)
    assert rc == 0, out
    return wt


def drop(wt):
    sh('git -C /repo worktree remove --force %s' % wt)
    shutil.rmtree(wt, ignore_errors=True)


def apply(wt, patch):
    rc, out = sh('git apply %s' % patch, cwd=wt)
    if rc != 0:
        rc, out = sh('git apply --3way %s' % patch, cwd=wt)
    return rc, out


def confirm(src, n, dest):
    patch = os.path.join(src, 'change%s.diff' % n)
    demo = os.path.join(src, 'demo%s.py' % n)
    meta = os.path.join(src, 'meta%s.json' % n)
    wt = worktree()
    res = {}
    try:
        env = {'PYTHONPATH': wt, 'PYTHONDONTWRITEBYTECODE': '1'}
        rc, out = sh('%s -W ignore %s' % (PY, demo), cwd=wt, env=env)
        res['demo_clean_rc'] = rc
        rc, out = apply(wt, patch)
        res['apply_rc'] = rc
        if rc != 0:
            print(out)
        rc, out = sh('%s -W ignore -m pytest -q -p no:cacheprovider '
                     'yaql/tests 2>&1 | tail -1' % PY, cwd=wt, env=env)
        res['pytest'] = out.strip()
        rc, out = sh('%s -W ignore %s' % (PY, demo), cwd=wt, env=env)
        res['demo_changed_rc'] = rc
        res['demo_changed_tail'] = out[-400:]
    finally:
        drop(wt)
    ok = (res['demo_clean_rc'] == 0 and res['apply_rc'] == 0 and
          '366 passed' in res['pytest'] and res['demo_changed_rc'] != 0)
    res['confirmed'] = ok
    print(json.dumps(res, indent=1))
    if ok:
        d = os.path.join(ROOT, 'seeded', dest)
        os.makedirs(d, exist_ok=True)
        shutil.copy(patch, os.path.join(d, 'patch.diff'))
        shutil.copy(demo, os.path.join(d, 'demo.py'))
        m = json.load(open(meta)) if os.path.exists(meta) else {}
        m['confirmed_by'] = {
            'ran': 'tools/seedcheck.py confirm: scratch worktree of /repo '
                   'HEAD; demo exit 0 on clean tree; patch applied; full '
                   'pytest suite; demo exit non-zero with patch',
            'pytest': res['pytest'],
            'demo_clean_rc': res['demo_clean_rc'],
            'demo_changed_rc': res['demo_changed_rc'],
            'repo_head': sh('git -C /repo rev-parse --short HEAD')[1].strip(),
        }
        m.setdefault('detected_by', {})
        json.dump(m, open(os.path.join(d, 'meta.json'), 'w'), indent=1)
    return 0 if ok else 1


def run(dest, ids, tier):
    d = os.path.join(ROOT, 'seeded', dest)
    meta_p = os.path.join(d, 'meta.json')
    m = json.load(open(meta_p))
    ids = ids or [m.get('property', dest[:3])]
    wt = worktree()
    try:
        rc, out = apply(wt, os.path.join(d, 'patch.diff'))
        assert rc == 0, out
        for pid in ids:
            t0 = time.time()
            rc, out = sh('./check %s %s' % (pid, tier), cwd=ROOT,
                         env={'YAQL_SRC': wt, 'VERIF_NOSHRINK': '1',
                              'VERIF_EVIDENCE_DIR': '/tmp/sv-evidence'})
            lines = [l for l in out.splitlines()
                     if l.startswith(('VIOLATION', '  signature',
                                      'HARNESS', 'KNOWN'))]
            verdict = {0: 'MISSED', 1: 'DETECTED'}.get(rc, 'HARNESS-ERROR')
            print('%s vs %s [%s]: %s (%.0fs)' % (pid, dest, tier, verdict,
                                                 time.time() - t0))
            for l in lines[:6]:
                print('   ', l)
            if rc == 2:
                print(out[-1500:])
            m.setdefault('detected_by', {})['%s %s' % (pid, tier)] = {
                'verdict': verdict,
                'signatures': [l.strip()[len('signature: '):]
                               for l in lines if 'signature' in l][:5]}
        json.dump(m, open(meta_p, 'w'), indent=1)
    finally:
        drop(wt)
        # found-* replay files written while testing a seeded change are
        # not findings about /repo
        sh("find %s/replays -name 'found-*.json' -newer %s -delete" % (
            ROOT, meta_p))


if __name__ == '__main__':
    a = sys.argv[1:]
    if a[0] == 'confirm':
        sys.exit(confirm(a[1], a[2], a[3]))
    tier = 'quick'
    if '--tier' in a:
        i = a.index('--tier')
        tier = a[i + 1]
        del a[i:i + 2]
    run(a[1], a[2:], tier)

"""Common driver: tiers, seeding, counting, known findings, replay, evidence.

Usage (through /verif/check):
    python -m vf.runner <ID> quick|thorough
    python -m vf.runner <ID> --replay <file>
    python -m vf.runner --selftest <ID>

Exit codes: 0 property held on everything explored (known findings are
reported as KNOWN-FINDING lines), 1 violation (one `VIOLATION property=..
replay=..` line per distinct signature), 2 harness error (never a verdict).
"""
import collections
import hashlib
import importlib
import json
import multiprocessing
import multiprocessing.connection
import os
import sys
import time
import traceback

ROOT = os.path.dirname(os.path.dirname(os.path.abspath(__file__)))
YAQL_SRC = os.environ.get('YAQL_SRC', '/repo')
if YAQL_SRC not in sys.path:
    sys.path.insert(0, YAQL_SRC)

import warnings  # noqa: E402
warnings.filterwarnings('ignore')

from vf import findings  # noqa: E402


class HarnessError(Exception):
    pass


class Found(Exception):
    """Raised inside a Hypothesis test for an unlisted violation (shrinks)."""

    def __init__(self, signature, case, detail):
        super().__init__(signature)
        self.signature = signature
        self.case = case
        self.detail = detail


def fingerprint(obj):
    data = json.dumps(obj, sort_keys=True, default=repr)
    return hashlib.blake2b(data.encode('utf-8', 'surrogatepass'),
                           digest_size=8).hexdigest()


def derive_seed(*parts):
    h = hashlib.blake2b('|'.join(map(str, parts)).encode(), digest_size=4)
    return int.from_bytes(h.digest(), 'big')


class Run:
    """Per-run (or per-shard) accumulator.  Picklable state in .state()."""

    MAX_SAMPLES = 8

    def __init__(self, prop, tier, seed, known=None, replaying=False):
        self.prop = prop
        self.tier = tier
        self.seed = seed
        self.known = known if known is not None else findings.load(prop)
        self.replaying = replaying
        self.evaluations = 0
        self.nontrivial = set()
        self.classes = collections.Counter()
        self.samples = []
        self._sample_seen = 0
        self.violations = []       # unlisted: dict(signature, case, detail)
        self.known_hits = collections.Counter()
        self.known_examples = {}
        self.excluded = collections.Counter()
        self.inconclusive = 0
        self.notes = {}
        self.in_hypothesis = False
        self.extra = {}

    # -- counting ---------------------------------------------------------
    def case(self, case, nontrivial, fp=None, cls=None, sample=True):
        """Record one executed case."""
        self.evaluations += 1
        if cls:
            if isinstance(cls, str):
                self.classes[cls] += 1
            else:
                for c in cls:
                    self.classes[c] += 1
        if nontrivial:
            f = fp if fp is not None else fingerprint(case)
            if not isinstance(f, str):
                f = fingerprint(f)
            new = f not in self.nontrivial
            self.nontrivial.add(f)
            if sample and new:
                self._maybe_sample(case)

    def count(self, n=1, cls=None):
        self.evaluations += n
        if cls:
            self.classes[cls] += n

    def _maybe_sample(self, case):
        # deterministic thinning reservoir: keep the 1st, 2nd, 4th, 8th ...
        self._sample_seen += 1
        n = self._sample_seen
        if n & (n - 1) == 0:
            self.samples.append(_jsonable(case))
            if len(self.samples) > self.MAX_SAMPLES:
                del self.samples[1]

    def exclude(self, why, n=1):
        self.excluded[why] += n

    # -- verdicts ---------------------------------------------------------
    def violate(self, clause, case, detail='', exc=None, input_class=None):
        """Report that `case` breaks oracle clause `clause`.

        Known signatures are counted and absorbed; unknown ones raise Found
        inside Hypothesis (to get shrinking) or are recorded directly.
        """
        sig = findings.signature(self.prop, clause, exc, input_class)
        entry = findings.match(self.known, sig)
        if entry is not None and not self.replaying:
            self.known_hits[entry['signature']] += 1
            self.known_examples.setdefault(entry['signature'],
                                           _jsonable(case))
            return False
        if exc is not None and not detail:
            detail = '%s: %s' % (type(exc).__name__, _short(exc))
        if self.in_hypothesis:
            raise Found(sig, case, detail)
        self._record(sig, case, detail)
        return True

    def _record(self, sig, case, detail):
        for v in self.violations:
            if v['signature'] == sig:
                v['count'] += 1
                return
        self.violations.append({'signature': sig, 'case': _jsonable(case),
                                'detail': str(detail)[:2000], 'count': 1})

    # -- hypothesis driver ---------------------------------------------------
    def hyp(self, label, strategy, body, max_examples, shard=0,
            stateful=False):
        """Run `body(case)` over `strategy` under a derived seed.

        body reports through self.case / self.violate.  An unlisted violation
        is shrunk by Hypothesis and recorded once.
        """
        import hypothesis
        from hypothesis import HealthCheck, Phase, given, settings

        phases = [Phase.generate, Phase.target]
        if not os.environ.get('VERIF_NOSHRINK'):
            phases.append(Phase.shrink)
        st = settings(max_examples=max_examples, deadline=None,
                      database=None, derandomize=False,
                      report_multiple_bugs=False, phases=phases,
                      suppress_health_check=list(HealthCheck),
                      print_blob=False)
        seedv = derive_seed(self.seed, self.prop, label, shard)

        @hypothesis.seed(seedv)
        @settings(st)
        @given(strategy)
        def test(case):
            body(case)

        self.in_hypothesis = True
        try:
            test()
        except Found as f:
            self._record(f.signature, f.case, f.detail)
        except hypothesis.errors.Flaky as e:
            self._flaky(label, e)
        finally:
            self.in_hypothesis = False

    def _flaky(self, label, e):
        # Hypothesis saw a violation that did not repeat on re-execution.
        # The harness side of every check is deterministic, so a violation
        # that comes and goes means the code under test answered the same
        # case in two ways; the recorded case is reported (unshrunk) and
        # marked as such.
        founds = [x for x in getattr(e, 'exceptions', ())
                  if isinstance(x, Found)]
        if not founds:
            raise HarnessError('flaky hypothesis test %s: %s' % (label, e))
        f = founds[0]
        self._record(f.signature, f.case, 'NOT REPRODUCED on immediate '
                     're-execution of the same case (outcome varies between '
                     'executions): ' + str(f.detail))

    def machine(self, label, machine_cls, max_examples, steps, shard=0):
        import hypothesis
        from hypothesis import HealthCheck, Phase, settings
        from hypothesis.stateful import run_state_machine_as_test
        phases = [Phase.generate, Phase.target]
        if not os.environ.get('VERIF_NOSHRINK'):
            phases.append(Phase.shrink)
        st = settings(max_examples=max_examples, deadline=None,
                      database=None, derandomize=False,
                      stateful_step_count=steps,
                      report_multiple_bugs=False, phases=phases,
                      suppress_health_check=list(HealthCheck),
                      print_blob=False)
        seedv = derive_seed(self.seed, self.prop, label, shard)
        self.in_hypothesis = True
        try:
            run_state_machine_as_test(hypothesis.seed(seedv)(machine_cls),
                                      settings=st)
        except Found as f:
            self._record(f.signature, f.case, f.detail)
        except hypothesis.errors.Flaky as e:
            self._flaky(label, e)
        finally:
            self.in_hypothesis = False

    # -- sharding -------------------------------------------------------------
    def state(self):
        return {
            'evaluations': self.evaluations,
            'nontrivial': self.nontrivial,
            'classes': self.classes, 'samples': self.samples,
            'violations': self.violations, 'known_hits': self.known_hits,
            'known_examples': self.known_examples,
            'excluded': self.excluded, 'inconclusive': self.inconclusive,
            'extra': self.extra,
        }

    def merge(self, st):
        self.evaluations += st['evaluations']
        self.nontrivial |= st['nontrivial']
        self.classes.update(st['classes'])
        # at most two samples per shard so that the evidence shows cases of
        # several generators, not only of the first shard
        for s in st['samples'][:1] + st['samples'][-1:]:
            if s not in self.samples:
                self.samples.append(s)
        for v in st['violations']:
            for w in self.violations:
                if w['signature'] == v['signature']:
                    w['count'] += v['count']
                    break
            else:
                self.violations.append(v)
        self.known_hits.update(st['known_hits'])
        for k, v in st['known_examples'].items():
            self.known_examples.setdefault(k, v)
        self.excluded.update(st['excluded'])
        self.inconclusive += st['inconclusive']
        for k, v in st['extra'].items():
            if isinstance(v, (int, float)) and isinstance(
                    self.extra.get(k, 0), (int, float)):
                self.extra[k] = self.extra.get(k, 0) + v
            else:
                self.extra.setdefault(k, v)

    def shards(self, fn, args_list, workers=None, watchdog=None):
        """Run fn(sub_run, *args) for every args in child processes; merge.

        watchdog (seconds): children re-arm a SIGALRM (default action: kill)
        every time they call sub_run.guard(case); a child killed that way is
        reported as a non-termination violation of the guarded case.  Used
        only where termination is part of the property and the hang would be
        inside C code that no Python-level budget can interrupt.
        """
        workers = workers or min(len(args_list), os.cpu_count() or 1, 16)
        if os.environ.get('VERIF_NOFORK') and not watchdog:
            for i, a in enumerate(args_list):
                sub = Run(self.prop, self.tier, self.seed, self.known)
                fn(sub, *a)
                self.merge(sub.state())
            return
        ctx = multiprocessing.get_context('fork')
        pending = list(enumerate(args_list))
        pending.reverse()
        live = {}
        errors = []
        while pending or live:
            while pending and len(live) < workers:
                i, a = pending.pop()
                parent, childc = ctx.Pipe(duplex=False)
                cur = ctx.Array('c', 16384, lock=False)
                pr = ctx.Process(target=_shard_child, args=(
                    childc, cur, self.prop, self.tier, self.seed, fn, a,
                    watchdog))
                pr.start()
                childc.close()
                live[i] = (pr, parent, cur, a)
            ready = multiprocessing.connection.wait(
                [v[1] for v in live.values()], timeout=1.0)
            for i in list(live):
                pr, parent, cur, a = live[i]
                if parent in ready or not pr.is_alive():
                    st = None
                    try:
                        if parent.poll(0.5 if pr.is_alive() else 0.05):
                            st = parent.recv()
                    except (EOFError, OSError):
                        st = None
                    pr.join(30)
                    parent.close()
                    del live[i]
                    if st is None:
                        raw = bytes(cur.raw).split(b'\0', 1)[0]
                        if watchdog and pr.exitcode == -14 and raw:
                            try:
                                case = json.loads(raw.decode('utf-8'))
                            except Exception:
                                case = {'raw': raw.decode('utf-8', 'replace')}
                            self.evaluations += 1
                            self.violate(
                                'non-termination', case,
                                'a single case ran for more than %ds of wall '
                                'clock (watchdog) and was killed' % watchdog)
                        else:
                            errors.append('shard %r died with exit code %r'
                                          % (a, pr.exitcode))
                    elif 'error' in st:
                        errors.append(st['error'])
                    else:
                        self.merge(st)
        if errors:
            raise HarnessError('shard failed:\n' + '\n'.join(errors[:3]))

    def guard(self, case):
        """Arm the per-case watchdog (no-op outside watchdog shards)."""
        g = getattr(self, '_guard', None)
        if g is not None:
            g(case)


def _shard_child(conn, cur, prop, tier, seed, fn, args, watchdog):
    try:
        try:
            import resource
            lim = 4 * 1024 ** 3
            resource.setrlimit(resource.RLIMIT_AS, (lim, lim))
        except Exception:
            pass
        sub = Run(prop, tier, seed)
        if watchdog:
            import signal
            signal.signal(signal.SIGALRM, signal.SIG_DFL)

            def g(case):
                data = json.dumps(_jsonable(case)).encode('utf-8')[:16000]
                cur.raw = data + b'\0' * (16384 - len(data))
                signal.setitimer(signal.ITIMER_REAL, watchdog)
            sub._guard = g
        fn(sub, *args)
        if watchdog:
            import signal
            signal.setitimer(signal.ITIMER_REAL, 0)
        st = sub.state()
    except BaseException:
        st = {'error': traceback.format_exc()}
    try:
        conn.send(st)
    finally:
        conn.close()
    os._exit(0)


def _short(exc):
    s = str(exc)
    return s if len(s) < 300 else s[:300] + '...'


def _jsonable(x, depth=0):
    if depth > 12:
        return repr(x)
    if isinstance(x, (str, int, float, bool)) or x is None:
        if isinstance(x, int) and not isinstance(x, bool) and abs(x) > 2 ** 63:
            return {'$int': str(x)}
        if isinstance(x, str):
            try:
                x.encode('utf-8')
            except UnicodeEncodeError:
                return {'$surrogate_str': x.encode(
                    'utf-8', 'surrogatepass').hex()}
        return x
    if isinstance(x, dict):
        return {str(k): _jsonable(v, depth + 1) for k, v in x.items()}
    if isinstance(x, (list, tuple)):
        return [_jsonable(v, depth + 1) for v in x]
    return repr(x)


# ---------------------------------------------------------------------------

def _pick(samples, n):
    """n samples evenly spread over everything collected"""
    if len(samples) <= n:
        return list(samples)
    step = (len(samples) - 1) / float(n - 1)
    return [samples[int(round(i * step))] for i in range(n)]


def load_prop(pid):
    return importlib.import_module('vf.props.' + pid.lower())


def replay_files(pid):
    d = os.path.join(ROOT, 'replays', pid)
    if not os.path.isdir(d):
        return []
    return sorted(os.path.join(d, f) for f in os.listdir(d)
                  if f.endswith('.json') and not f.startswith('found-'))


def run_replay_case(mod, run, case):
    kind = case.get('kind')
    fn = mod.REPLAY.get(kind)
    if fn is None:
        raise HarnessError('no replay function for kind %r' % kind)
    fn(run, case)


def write_evidence(mod, run, wall):
    pid = run.prop
    cov = {
        'evaluations': run.evaluations,
        'distinct_nontrivial': len(run.nontrivial),
        'rule': mod.RULE,
        'samples': _pick(run.samples, Run.MAX_SAMPLES),
        'classes': dict(sorted(run.classes.items())),
        'known_findings_hit': dict(run.known_hits),
        'excluded_by_construction': dict(run.excluded),
        'inconclusive_cases': run.inconclusive,
    }
    cov.update(run.extra)
    ev = {
        'property_id': pid, 'tier': run.tier, 'seed': run.seed,
        'level': 'exploration', 'coverage': cov,
        'assumptions': list(getattr(mod, 'ASSUMPTIONS', [])),
        'wall_s': round(wall, 2), 'violations': len(run.violations),
    }
    # minimal self-validation against EVIDENCE.schema.json's generic rules
    assert isinstance(cov['evaluations'], int) and cov['evaluations'] >= 1
    assert isinstance(cov['samples'], list)
    evdir = os.environ.get('VERIF_EVIDENCE_DIR') or os.path.join(
        ROOT, 'evidence')
    os.makedirs(evdir, exist_ok=True)
    path = os.path.join(evdir, pid + '.json')
    tmp = path + '.tmp'
    with open(tmp, 'w') as f:
        json.dump(ev, f, indent=1, sort_keys=True, default=repr)
    os.replace(tmp, path)
    return ev


def report(run, mod):
    """Print KNOWN-FINDING / VIOLATION lines; return exit code."""
    for sig, n in sorted(run.known_hits.items()):
        entry = findings.match(run.known, sig)
        print('KNOWN-FINDING: property=%s %s [signature=%s; cases absorbed=%d]'
              % (run.prop, entry['what_fails'], sig, n))
    code = 0
    for v in run.violations:
        d = os.path.join(ROOT, 'replays', run.prop)
        os.makedirs(d, exist_ok=True)
        case = dict(v['case']) if isinstance(v['case'], dict) else {
            'case': v['case']}
        case.setdefault('property', run.prop)
        case['signature'] = v['signature']
        case['detail'] = v['detail']
        case['seed'] = run.seed
        case['tier'] = run.tier
        path = os.path.join(d, 'found-%s.json' % fingerprint(
            [v['signature'], v['case']]))
        with open(path, 'w') as f:
            json.dump(case, f, indent=1, sort_keys=True, default=repr)
        print('VIOLATION property=%s replay=%s' % (run.prop, path))
        print('  signature: %s' % v['signature'])
        print('  detail: %s' % v['detail'].replace('\n', '\n    ')[:1500])
        code = 1
    return code


def main(argv):
    # reports quote generated inputs: lone surrogates and the like must not
    # turn a violation into a harness error
    for stream in (sys.stdout, sys.stderr):
        try:
            stream.reconfigure(errors='backslashreplace')
        except Exception:   # noqa
            pass
    if len(argv) >= 2 and argv[0] == '--selftest':
        from vf import selftest
        return selftest.main(argv[1:])
    if len(argv) < 2:
        print(__doc__)
        return 2
    pid = argv[0].upper()
    seed = int(os.environ.get('VERIF_SEED', '1') or 1)
    t0 = time.time()
    try:
        import yaql
        src = os.path.realpath(os.path.dirname(os.path.dirname(
            yaql.__file__)))
        if src != os.path.realpath(YAQL_SRC):
            raise HarnessError('yaql imported from %s, expected %s'
                               % (src, YAQL_SRC))
        mod = load_prop(pid)
        if argv[1] == '--replay':
            run = Run(pid, 'quick', seed, replaying=False)
            with open(argv[2]) as f:
                case = json.load(f)
            run_replay_case(mod, run, case)
            for sig, n in run.known_hits.items():
                print('KNOWN-FINDING: property=%s %s' % (
                    pid, findings.match(run.known, sig)['what_fails']))
            if run.violations:
                for v in run.violations:
                    print('VIOLATION property=%s replay=%s' % (pid, argv[2]))
                    print('  signature: %s' % v['signature'])
                    print('  detail: %s' % v['detail'][:1500])
                return 1
            print('replay ok: property=%s held on %s' % (pid, argv[2]))
            return 0
        tier = argv[1]
        if tier not in ('quick', 'thorough'):
            tier = os.environ.get('VERIF_TIER', 'quick')
        run = Run(pid, tier, seed)
        # replay tier first
        for path in replay_files(pid):
            with open(path) as f:
                case = json.load(f)
            run_replay_case(mod, run, case)
            run.classes['replayed_files'] += 1
        mod.run(run)
        wall = time.time() - t0
        write_evidence(mod, run, wall)
        code = report(run, mod)
        print('%s %s seed=%d: evaluations=%d distinct_nontrivial=%d '
              'known=%d violations=%d wall=%.1fs' % (
                  pid, tier, seed, run.evaluations, len(run.nontrivial),
                  sum(run.known_hits.values()), len(run.violations), wall))
        return code
    except HarnessError as e:
        print('HARNESS-ERROR %s: %s' % (pid, e))
        return 2
    except Exception:
        print('HARNESS-ERROR %s:\n%s' % (pid, traceback.format_exc()))
        return 2


if __name__ == '__main__':
    sys.exit(main(sys.argv[1:]))

"""C07 - expressions cannot reach host objects except through granted members.

(a) canary sweep: a non-yaqlized canary object in every parameter position of
    every registered definition (fillers include attack strings), in every
    member/index access form, and through call(name, args, kwargs).
(b) yaqlization policy: generated settings x member names x access forms
    against models/yaqlpolicy (inlined below).
"""
import collections.abc
import re

from hypothesis import strategies as st

from vf import common, stdlib_walk as W
from yaql import yaqlization

RULE = ('(a) every registered definition x every visible parameter position '
        'x fillings (attack strings among the string fillers) with a logging '
        'canary bound there, directly and nested in lists / a map (5 nestings); '
        'access forms .name ?.name .name() [name] [0] on '
        'the canary for its real, private and dunder member names; '
        'call(name, args, kwargs) for every registered name; (b) Hypothesis: '
        'histories in which an auto-yaqlizing object hands out instances of '
        'slotted / plain / library classes and a never-yaqlized instance of '
        'the same class is then probed; '
        'yaqlization settings (3 switches, whitelist/blacklist entries as '
        'strings, regexes, predicates, remappings with argument maps) x all '
        'member names of a probe class x 3 access forms; non-trivial: (a) '
        'payload entered with the canary as an argument or an access form '
        'resolved against it; (b) settings with a non-empty list or '
        'remapping that the name hits; distinct = distinct case')
ASSUMPTIONS = [
    'the framework may ask a host object for __class__, __yaqlization__ and '
    '__unwrapped__ (type tests); anything else reaching __getattribute__, '
    '__getitem__ or __call__ of a non-yaqlized object is a leak',
    'what a granted host method does with its arguments is the host\'s '
    'business',
    'delegates mode (lambda(), #call), where calling host callables is the '
    'feature, is not part of the default context and not swept',
]

SECRET = 'S3CR3T-c07-marker'
ALLOWED_PROBES = {'__class__', '__yaqlization__', '__unwrapped__'}


class Canary:
    """not yaqlized; logs every touch"""
    log = []
    klass_secret = SECRET

    def __init__(self):
        object.__setattr__(self, 'public', SECRET)
        object.__setattr__(self, 'secret', SECRET)
        object.__setattr__(self, '_private', SECRET)
        object.__setattr__(self, '_Canary__mangled', SECRET)

    def __getattribute__(self, name):
        Canary.log.append(('attr', name))
        return object.__getattribute__(self, name)

    def __getitem__(self, key):
        Canary.log.append(('item', repr(key)))
        return SECRET

    def __call__(self, *a, **kw):
        Canary.log.append(('call',))
        return SECRET

    def method(self, *a, **kw):
        Canary.log.append(('method',))
        return SECRET

    def __repr__(self):
        return '<canary>'

    __str__ = __repr__

    def __eq__(self, other):
        return self is other

    def __hash__(self):
        return 7


ATTACK_STRINGS = ['{0.secret}', '{0.__class__.__init__.__globals__}',
                  '%(secret)s', '__class__', '_private', 'secret', 'public',
                  'method', '{secret}', '%s', '{0!r}', '$canary.secret',
                  '__getattribute__', 'klass_secret']


def _leaks(log):
    return [e for e in log if not (e[0] == 'attr' and e[1] in ALLOWED_PROBES)]


def _judge(run, case, text, out, ic, entered):
    leaks = _leaks(Canary.log)
    if leaks:
        run.violate('host-object-touched', case,
                    '%s touched the canary: %r' % (text, leaks[:5]),
                    input_class=ic + '/' + leaks[0][0] + (
                        ':' + leaks[0][1] if leaks[0][0] == 'attr' else ''))
        return
    shown = repr(out[1]) if out[0] == 'ok' else str(out[1])
    if SECRET in shown:
        run.violate('secret-in-output', case, '%s -> %s' % (text,
                                                             shown[:300]),
                    input_class=ic)


_S = {}


def _ctx():
    if 'ctx' not in _S:
        _S['entered'] = []
        _S['ctx'] = W.clone_context(
            defs=W.definitions(delegates=False), delegates=False,
            on_enter=lambda d, a, kw: _S['entered'].append(
                (d.id, any(isinstance(x, Canary) for x in
                           list(a) + list(kw.values())))))
    return _S['ctx']


def _engine():
    return common.engine({'yaql.limitIterators': 200,
                          'yaql.memoryQuota': 10 ** 6})


# the canary itself, or a collection / mapping that holds it (library
# functions that look inside their arguments must not look inside *it*)
NESTS = ['$canary', '[$canary]', '[[$canary, $canary]]', '{a => $canary}',
         '[$canary, [$canary]]', '[[1, $canary], [$canary, 2]]']


def check_sweep(run, case):
    defs = {d.id: d for d in W.definitions(delegates=False)}
    d = defs.get(case['def'])
    if d is None:
        run.exclude('definition no longer registered')
        return
    where = None
    for w in W.positions(d):
        if [w[0], w[1]] == case['where']:
            where = w
    if where is None:
        run.exclude('position no longer exists')
        return
    corp = W.corpus()
    k = case.get('fill', 0)
    # attack strings among the string fillers
    corp['String'] = [('var', ATTACK_STRINGS[(k + i) % len(ATTACK_STRINGS)])
                      for i in range(3)] + corp['String'][:1]
    corp['Keyword'] = [('src', 'secret'), ('src', 'public'),
                       ('src', 'method'), ('src', '_private')]
    corp['Lambda'] = corp['Lambda'] + [('src', '$.secret'),
                                       ('src', '$canary')]
    call = W.default_call(d, k, corp)
    call = W.with_target(call, where, ('src', NESTS[case.get('nest', 0)]))
    text, binds = call.render()
    canary = Canary()
    del Canary.log[:]
    ctx = _ctx()
    del _S['entered'][:]
    try:
        out = ('ok', W.evaluate(text, binds, ctx, _engine(),
                                extra={'canary': canary}))
        # force lazy results so that deferred touches happen
    except Exception as e:   # noqa
        out = ('exc', e)
    entered = any(i == d.id and c for i, c in _S['entered']) or (
        case.get('nest', 0) > 0 and any(i == d.id for i, c in _S['entered']))
    run.case(case, entered, cls=['sweep'] + (
        ['canary-nested'] if case.get('nest') else []) + (
        ['payload-entered-with-canary'] if entered else []))
    _judge(run, case, text, out, '%s(%s)' % (d.fd.name, where[2].name),
           entered)


ACCESS_NAMES = ['public', 'secret', 'method', '_private', 'klass_secret',
                '__class__', '__dict__', '__init__', '_Canary__mangled',
                'nosuch', 'log']
ACCESS_FORMS = ['$c.{n}', '$c?.{n}', '$c.{n}()', '$c.{n}(1, a => 2)',
                "$c['{n}']", '$c[{n}]', '$c[0]', '[$c].{n}', '[$c].select($.{n})',
                '{{a => $c}}.a.{n}', '$c.{n}.{n}', "call('{n}', [$c], {{}})",
                "call('{n}', [], {{}}, $c)" if False else
                "call({n}, [$c], {{}})", '[$c][0].{n}', '$c.toList()',
                '$c.len()', 'str($c)', '$c + $c', '$c = $c', '$c in [$c]',
                '[$c].contains($c)', '[$c].indexOf($c)', '{{$c => 1}}',
                'set($c)', '[$c].distinct()', '[$c].orderBy($)',
                '[$c, $c].orderBy($)', '[$c].toDict($, $)',
                '[$c].groupBy($)', 'dict($c => 1)', "'{{0.secret}}'.len()",
                '$c.select($)', '$c.where($)', 'list($c)', 'bool($c)',
                'not $c', '$c and 1', 'isString($c)', 'max($c, $c)',
                '$c > $c', '-$c', 'int($c)', 'float($c)', 'hex($c)',
                'isEmpty($c)', "'a'.join([$c])", "[$c].join(',')",
                "'{n}'.replace({{'{n}' => $c}})", 'now() + $c',
                'datetime($c)', 'regex($c)', "'a' =~ $c", 'range($c)',
                '$c.{n} = 1', 'switch($c => 1)', 'coalesce($c)',
                'assert($c, $.{n})', 'let(x => $c) -> $x.{n}',
                # the object under a key that the other dictionary maps to
                # a dictionary / list (deep merge looks at both values)
                'dict(a => $c).mergeWith(dict(a => dict(b => 1)))',
                'dict(k => dict(a => $c)).mergeWith(dict(k => dict(a => '
                'dict(b => 1))))',
                'dict(a => dict(b => 1)).mergeWith(dict(a => $c))',
                'dict(a => $c).mergeWith(dict(a => [1]))',
                'dict(a => [$c]).mergeWith(dict(a => [dict(b => 1)]))',
                'dict(a => $c).mergeWith(dict(a => $c))',
                'dict(a => $c).mergeWith(dict(a => dict(b => 1)), '
                '$1 + $2, $1, 2)',
                '{{a => $c}} + {{a => {{b => 1}}}}',
                'dict(a => $c).set(a, dict(b => 1))',
                # failing assertions on the object with a format template as
                # the message
                "$c.assert(false, '{{0.{n}}}')",
                "$c.assert($ = null, '{{0.{n}}} {{0.__class__}}')",
                "$c.assert(not true, message => '{{0[{n}]}} %({n})s')",
                "[$c].select($.assert(false, '{{0.{n}.__class__}}'))",
                "$c.assert(true, '{{0.{n}}}')",
                '$c -> $.{n}', 'unpack($c)', 'with($c) -> $.{n}',
                'def(f, $.{n}) -> f($c)', 'yaqlize($c)' if False else
                'isDict($c)', 'isList($c)', '$c.keys()', '$c.get({n})',
                '$c.set({n}, 1)', '$c.mergeWith({{}})', '$c.values()',
                'len($c)', '$c * 2', "'{{}}' + str($c)"]


def check_access(run, case):
    text = case['form'].format(n=case['name'])
    canary = Canary()
    del Canary.log[:]
    ctx = common.child(common.std_context(delegates=False))
    ctx['$c'] = canary
    try:
        out = ('ok', _engine()(text).evaluate(context=ctx))
    except Exception as e:   # noqa
        out = ('exc', e)
    run.case(case, True, fp=(text,), cls=['access-form', 'outcome=' + (
        'ok' if out[0] == 'ok' else type(out[1]).__name__)])
    _judge(run, case, text, out, 'form:' + case['form'], True)


def check_call(run, case):
    """call(name, args, kwargs) with the canary among args / as kwargs
    values and keys that are not keywords"""
    name = case['name']
    canary = Canary()
    del Canary.log[:]
    ctx = common.child(common.std_context(delegates=False))
    ctx['$c'] = canary
    ctx['$name'] = name
    ctx['$kw'] = {'__class__': 1, 'a b': 2, '_x': canary, 'secret': canary}
    text = ['call($name, [$c], {})', 'call($name, [$c, $c], {})',
            'call($name, [[1, 2], $c], {})', 'call($name, [1], $kw)',
            'call($name, [], {}, $c)' if False else
            'call($name, [$c, 1, 2], {})',
            'call($name, [$c], {}, $c)' if False else
            'call($name, ["abc", $c], {})'][case['shape']]
    try:
        out = ('ok', _engine()(text).evaluate(context=ctx))
        if isinstance(out[1], collections.abc.Iterator):
            out = ('ok', list(out[1]))
    except Exception as e:   # noqa
        out = ('exc', e)
    run.case(case, True, fp=(name, case['shape']), cls='call-function')
    _judge(run, case, '%s [name=%r]' % (text, name), out,
           'call(%s)/shape%d' % (name, case['shape']), True)


# --------------------------------------------------------------------------
# (b) yaqlization policy

class Probe:
    """host class with a member of every kind; logs its own touches"""
    touched = []

    def __init__(self):
        object.__setattr__(self, 'alpha', 'A')
        object.__setattr__(self, 'beta', 'B')
        object.__setattr__(self, '_hidden', 'H')
        object.__setattr__(self, '_Probe__mangled', 'M')
        # names that contain a listed name at their end / start / inside
        object.__setattr__(self, 'sub_alpha', 'SA')
        object.__setattr__(self, 'alpha_x', 'AX')

    def __getattribute__(self, name):
        if name not in ('__class__', '__yaqlization__', '__dict__'):
            Probe.touched.append(('attr', name))
        return object.__getattribute__(self, name)

    def __getitem__(self, key):
        Probe.touched.append(('item', key))
        return ('item', key)

    @property
    def prop(self):
        return 'P'

    def m_one(self, a=1, b=2):
        return ('m_one', a, b)

    def m_two(self):
        return 'm_two'

    def pre_m_one(self):
        return 'pre_m_one'

    def m_one_more(self):
        return 'm_one_more'

    @staticmethod
    def smeth(x=0):
        return ('smeth', x)

    @classmethod
    def cmeth(cls):
        return 'cmeth'

    def _pmeth(self):
        return 'pmeth'


MEMBERS = ['alpha', 'beta', 'prop', 'm_one', 'm_two', 'smeth', 'cmeth',
           '_hidden', '_pmeth', '_Probe__mangled', 'nosuch', 'x', 'y',
           'Alpha', 'sub_alpha', 'alpha_x', 'pre_m_one', 'm_one_more']
# members whose names contain a listed string entry without being it
AFFIXED = {'alpha': ['sub_alpha', 'alpha_x'], 'x': ['alpha_x'],
           'm_one': ['pre_m_one', 'm_one_more'], 'one': ['m_one', 'pre_m_one'],
           'lph': ['alpha', 'sub_alpha']}
ENTRY_POOL = {
    's:alpha': 'alpha', 's:m_one': 'm_one', 's:beta': 'beta', 's:x': 'x',
    's:prop': 'prop', 's:m_two': 'm_two', 's:_hidden': '_hidden',
    's:one': 'one', 's:lph': 'lph',
    'r:^m_': re.compile('^m_'), 'r:a$': re.compile('a$'),
    'r:meth': re.compile('meth'), 'r:.': re.compile('.'),
    'p:len5': lambda n: len(n) == 5, 'p:has_e': lambda n: 'e' in n,
    'p:never': lambda n: False,
}
REMAP_POOL = {
    'x->alpha': ('x', 'alpha'), 'y->m_one': ('y', 'm_one'),
    'y->(m_one,{p:a})': ('y', ('m_one', {'p': 'a'})),
    'x->_hidden': ('x', '_hidden'), 'alpha->beta': ('alpha', 'beta'),
    'Alpha->alpha': ('Alpha', 'alpha'), 'x->nosuch': ('x', 'nosuch'),
    'y->(m_two,{})': ('y', ('m_two', {})),
}


def _matches(name, entry):
    if isinstance(entry, str):
        return name == entry
    if isinstance(entry, re.Pattern):
        return entry.search(name) is not None
    return bool(entry(name))


def policy(settings, form, name):
    """(allowed, python member touched)"""
    switch = {'attr': settings['attrs'], 'method': settings['methods'],
              'index': settings['indexer']}[form]
    remap = dict(REMAP_POOL[r] for r in settings['remap'])
    white = [ENTRY_POOL[e] for e in settings['white']]
    black = [ENTRY_POOL[e] for e in settings['black']]
    if settings.get('blacklist_remapped', True):
        for v in remap.values():
            black.append(v if isinstance(v, str) else v[0])
    if not switch or name.startswith('_'):
        return False, None
    if white:
        ok = any(_matches(name, e) for e in white)
    else:
        ok = not any(_matches(name, e) for e in black)
    if not ok:
        return False, None
    if form == 'index':
        return True, name
    target = remap.get(name, name)
    return True, target if isinstance(target, str) else target[0]


def check_policy(run, case):
    s = case['settings']
    name, form = case['name'], case['form']
    obj = Probe()
    kwargs = dict(
        yaqlize_attributes=s['attrs'], yaqlize_methods=s['methods'],
        yaqlize_indexer=s['indexer'],
        whitelist=[ENTRY_POOL[e] for e in s['white']],
        blacklist=[ENTRY_POOL[e] for e in s['black']],
        attribute_remapping=dict(REMAP_POOL[r] for r in s['remap']),
        blacklist_remapped_attributes=s.get('blacklist_remapped', True))
    if s.get('on_class'):
        cls = type('ProbeY', (Probe,), {})
        yaqlization.yaqlize(cls, **kwargs)
        obj = cls()
    else:
        yaqlization.yaqlize(obj, **kwargs)
    ctx = common.child(common.std_context(delegates=False))
    ctx['$o'] = obj
    kw = case.get('kwarg')
    recv = '$o'
    via = s.get('via_parent')
    if via and s.get('on_class'):
        # the object is handed out by another yaqlized object whose results
        # are auto-yaqlized; the class's own settings must keep governing it
        class Parent:
            def __init__(self, kid):
                self.kid = kid

            def child(self):
                return self.kid

            def __getitem__(self, key):
                return self.kid
        ctx['$p'] = yaqlization.yaqlize(Parent(obj),
                                        auto_yaqlize_result=True)
        recv = {'method': '$p.child()', 'attr': '$p.kid',
                'index': "$p['kid']"}[via]
    text = {'attr': '%s.%s' % (recv, name),
            'method': '%s.%s(%s)' % (recv, name,
                                     '%s => 5' % kw if kw else ''),
            'index': "%s['%s']" % (recv, name)}[form]
    del Probe.touched[:]
    try:
        out = ('ok', _engine()(text).evaluate(context=ctx))
    except Exception as e:   # noqa
        out = ('exc', e)
    touched = list(Probe.touched)
    allowed, target = policy(s, form, name)
    hits = bool(s['white'] or s['black'] or s['remap'])
    run.case(case, hits, cls=['policy', 'form=' + form,
                              'allowed' if allowed else 'denied'])
    ic = 'form=%s' % form
    if not allowed:
        if touched:
            run.violate('denied-member-touched', case,
                        '%s with settings %r: policy denies %r but the '
                        'object was touched: %r' % (text, s, name, touched),
                        input_class=ic)
        elif out[0] == 'ok':
            run.violate('denied-access-returns-value', case,
                        '%s with settings %r returned %r' % (text, s, out[1]),
                        input_class=ic)
        return
    # allowed: exactly one touch of exactly the predicted member
    exp_touch = ('item', name) if form == 'index' else ('attr', target)
    if touched != [exp_touch]:
        run.violate('allowed-member-not-reached-exactly', case,
                    '%s with settings %r: expected touches [%r], observed '
                    '%r; outcome %r' % (text, s, exp_touch, touched,
                                        _short(out)),
                    exc=out[1] if out[0] == 'exc' else None,
                    input_class=ic + ('/kwarg' if kw else ''))
        return
    exists = form == 'index' or hasattr(Probe, target) or target in (
        'alpha', 'beta')
    if exists and out[0] == 'exc' and not (
            form == 'method' and not callable(getattr(Probe(), target, None))
    ) and not (form == 'method' and kw and not _accepts_kw(s, name, kw)):
        run.violate('allowed-member-access-raises', case,
                    '%s with settings %r raised %s: %s' % (
                        text, s, type(out[1]).__name__, out[1]),
                    exc=out[1], input_class=ic + ('/kwarg' if kw else ''))


def _accepts_kw(s, name, kw):
    """does the (remapped) method accept keyword kw after argument mapping"""
    remap = dict(REMAP_POOL[r] for r in s['remap'])
    target = remap.get(name, name)
    argmap = {}
    if not isinstance(target, str):
        target, argmap = target[0], target[1]
    kw = argmap.get(kw, kw)
    return (target, kw) in (('m_one', 'a'), ('m_one', 'b'), ('smeth', 'x'))


def _short(out):
    r = repr(out[1])
    return (out[0], r if len(r) < 150 else r[:150] + '...')


# ---- results handed out by auto-yaqlizing objects ---------------------------
#
# A yaqlized object with auto_yaqlize_result makes the *objects it returns*
# reachable.  That is a grant for those objects only: other instances of
# their classes - never handed out, never yaqlized - stay out of reach,
# whatever was evaluated before (histories).

_TOUCHED = []


def _result_classes():
    import fractions

    class Slotted:
        __slots__ = ('secret', 'tag')

        def __init__(self, tag):
            object.__setattr__(self, 'secret', SECRET)
            object.__setattr__(self, 'tag', tag)

        def __getattribute__(self, name):
            if not name.startswith('__'):
                _TOUCHED.append((object.__getattribute__(self, 'tag'), name))
            return object.__getattribute__(self, name)

        def reveal(self):
            return SECRET

        def __getitem__(self, key):
            _TOUCHED.append((object.__getattribute__(self, 'tag'), 'item'))
            return SECRET

    class Plain:
        def __init__(self, tag):
            self.__dict__['tag'] = tag
            self.__dict__['secret'] = SECRET

        def __getattribute__(self, name):
            if not name.startswith('__'):
                _TOUCHED.append((object.__getattribute__(
                    self, '__dict__')['tag'], name))
            return object.__getattribute__(self, name)

        def reveal(self):
            return SECRET

        def __getitem__(self, key):
            _TOUCHED.append((self.__dict__['tag'], 'item'))
            return SECRET

    class SlottedChild(Slotted):
        __slots__ = ()

    return {'slotted': Slotted, 'plain': Plain, 'slotted-child': SlottedChild,
            'fraction': lambda tag: fractions.Fraction(1, 3)}


def check_auto_result(run, case):
    classes = _result_classes()
    make = classes[case['cls']]
    handed = make('handed-out')
    other = make('other')

    class Parent:
        def __init__(self, kid):
            self.kid = kid

        def child(self):
            return self.kid

        def __getitem__(self, key):
            return self.kid
    ctx = common.child(common.std_context(delegates=False))
    ctx['$p'] = yaqlization.yaqlize(Parent(handed), auto_yaqlize_result=True)
    ctx['$other'] = other
    eng = _engine()
    recv = {'method': '$p.child()', 'attr': '$p.kid',
            'index': "$p['kid']"}
    for via in case['pre']:
        for text in (recv[via], recv[via] + '.secret', recv[via] +
                     '.reveal()'):
            try:
                eng(text).evaluate(context=ctx.create_child_context())
            except Exception:   # noqa
                pass
    member = 'numerator' if case['cls'] == 'fraction' else 'secret'
    text = {'attr': '$other.' + member,
            'method': '$other.reveal()' if case['cls'] != 'fraction'
            else '$other.conjugate()',
            'index': "$other['%s']" % member}[case['form']]
    del _TOUCHED[:]
    try:
        out = ('ok', eng(text).evaluate(context=ctx.create_child_context()))
    except Exception as e:   # noqa
        out = ('exc', e)
    run.case(case, bool(case['pre']) and case['cls'] != 'plain',
             cls=['auto-result', 'class=' + case['cls']])
    touched = [t for t in _TOUCHED if t[0] == 'other']
    ic = 'auto-result:%s/%s' % (case['cls'], case['form'])
    if touched:
        run.violate('denied-member-touched', case,
                    '%s touched an object that was never yaqlized nor '
                    'handed out (%r) after %r had been evaluated' % (
                        text, touched, [recv[v] for v in case['pre']]),
                    input_class=ic)
    elif out[0] == 'ok':
        run.violate('denied-access-returns-value', case,
                    '%s returned %r although the object was never yaqlized '
                    'nor handed out (after %r)' % (
                        text, out[1], [recv[v] for v in case['pre']]),
                    input_class=ic)


REPLAY = {'sweep': check_sweep, 'access': check_access, 'call': check_call,
          'policy': check_policy, 'auto-result': check_auto_result}


@st.composite
def policy_cases(draw):
    s = {'attrs': draw(st.sampled_from([True, True, True, False])),
         'methods': draw(st.sampled_from([True, True, True, False])),
         'indexer': draw(st.sampled_from([True, True, True, False])),
         'white': draw(st.lists(st.sampled_from(sorted(ENTRY_POOL)),
                                max_size=2, unique=True)),
         'black': draw(st.lists(st.sampled_from(sorted(ENTRY_POOL)),
                                max_size=2, unique=True)),
         'remap': [], 'on_class': draw(st.booleans()),
         'via_parent': draw(st.sampled_from([None, None, 'method', 'attr',
                                             'index'])),
         'blacklist_remapped': draw(st.sampled_from([True, True, False]))}
    if draw(st.integers(0, 2)) == 0:
        s['white'] = []
    seen = set()
    for r in draw(st.lists(st.sampled_from(sorted(REMAP_POOL)), max_size=2)):
        if REMAP_POOL[r][0] not in seen:
            seen.add(REMAP_POOL[r][0])
            s['remap'].append(r)
    names = list(MEMBERS)
    # names that hit the generated lists and remappings are the interesting
    # ones: draw them as often as all the others together
    special = [REMAP_POOL[r][0] for r in s['remap']]
    special += [(REMAP_POOL[r][1] if isinstance(REMAP_POOL[r][1], str)
                 else REMAP_POOL[r][1][0]) for r in s['remap']]
    special += [ENTRY_POOL[e] for e in s['white'] + s['black']
                if isinstance(ENTRY_POOL[e], str)]
    for e in s['white'] + s['black']:
        if isinstance(ENTRY_POOL[e], str):
            special += AFFIXED.get(ENTRY_POOL[e], [])
    if special and draw(st.booleans()):
        names = special
    c = {'kind': 'policy', 'settings': s,
         'name': draw(st.sampled_from(names)),
         'form': draw(st.sampled_from(['attr', 'method', 'index']))}
    if c['form'] == 'method' and draw(st.integers(0, 1)) == 0:
        c['kwarg'] = draw(st.sampled_from(['a', 'p', 'p', 'x']))
    return c


def _sweep_shard(run, part, parts, fills):
    jobs = []
    for d in W.definitions(delegates=False):
        for w in W.positions(d):
            for f in range(fills):
                jobs.append({'kind': 'sweep', 'def': d.id,
                             'where': [w[0], w[1]], 'fill': f})
            for nest in range(1, len(NESTS)):
                jobs.append({'kind': 'sweep', 'def': d.id,
                             'where': [w[0], w[1]], 'fill': nest % 2,
                             'nest': nest})
    for c in jobs[part::parts]:
        check_sweep(run, c)


def _access_shard(run, part, parts):
    jobs = [{'kind': 'access', 'form': f, 'name': n}
            for f in ACCESS_FORMS for n in (
                ACCESS_NAMES if '{n}' in f else ['-'])]
    names = sorted({d.fd.name for d in W.definitions(delegates=False)})
    jobs += [{'kind': 'call', 'name': n, 'shape': s}
             for n in names for s in range(6)]
    for c in jobs[part::parts]:
        if c['kind'] == 'access':
            check_access(run, c)
        else:
            check_call(run, c)


def _policy_shard(run, n, shard):
    run.hyp('policy', policy_cases(), lambda c: check_policy(run, c), n,
            shard=shard)
    auto = st.builds(
        lambda c, f, pre: {'kind': 'auto-result', 'cls': c, 'form': f,
                           'pre': pre},
        st.sampled_from(['slotted', 'plain', 'slotted-child', 'fraction']),
        st.sampled_from(['attr', 'method', 'index']),
        st.lists(st.sampled_from(['method', 'attr', 'index']), max_size=3))
    run.hyp('auto-results', auto, lambda c: check_auto_result(run, c),
            max(n // 8, 10), shard=shard)


def run(run):
    full = run.tier == 'thorough'
    common.std_context(delegates=False)
    W.definitions(delegates=False)
    run.shards(_sweep_shard, [(i, 16, 12 if full else 2) for i in range(16)],
               watchdog=120)
    run.shards(_access_shard, [(i, 8) for i in range(8)], watchdog=120)
    k = 8
    run.shards(_policy_shard, [((40000 if full else 3200) // k, i)
                               for i in range(k)])

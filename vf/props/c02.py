"""C02 - the operator table decides the parse tree.

Token structures generated from the engine's own operator table are rendered
to text (random whitespace, redundant parentheses) and parsed by yaql; the
tree must equal the one built by models/precedence.py from the same token
structure and the factory's operator list.
"""
import itertools

from hypothesis import strategies as st

from vf import common, trees
from vf.models import precedence as P
from yaql.language import exceptions as yexc
from yaql.language import factory as yfactory

RULE = ('operand/operator sequences: operands are atoms, calls, lists, maps, '
        'parenthesised sub-sequences, with 0-2 prefix operators before and '
        'index expressions / suffix operators after them, binary operators '
        'in between; exhaustive: every sequence of <=2 (thorough <=3) infix '
        'operators of the default and legacy tables x every placement of <=2 '
        'prefix operators x an index suffix on one operand; random: up to 12 '
        'operators, redundant parentheses, random whitespace; custom tables: '
        'generated sequences of insert_operator calls keeping groups '
        'homogeneous, and a directed family (every kind of operator joined '
        'to / put next to every kind of stock group, a second operator '
        'joined to the new group); engines created part-way through such a sequence and '
        'used directly, through copy() and with per-call options while the '
        'factory is customised further (texts using the later operators '
        'are judged against an engine of an untouched factory with the '
        'same table); the two stock tables themselves against copies '
        'pinned in the check; non-trivial = two adjacent operators (same or '
        'different groups), or a prefix operator followed by a binary one, '
        'or an index suffix after a binary operand, or an inserted operator '
        'used; distinct = distinct (table, token structure)')
ASSUMPTIONS = [
    'tables are only edited through insert_operator (direct assignment to '
    'factory.operators is outside the quantifier)',
    'the model reads factory.operators as data for customised tables (the '
    'insertion model decides where an inserted operator belongs) and the '
    'pinned copies for the stock tables; it shares nothing with ply',
]

OT = yfactory.OperatorType
ATOMS = [('atom', 'kw:a'), ('atom', 'kw:b'), ('atom', 'kw:c'),
         ('atom', 'kw:d')]
ATOM_TEXT = {'kw:a': 'a', 'kw:b': 'b', 'kw:c': 'c', 'kw:d': 'd',
             '$x': '$x', '$': '$', 'int:7': '7', "str:'s'": "'s'",
             'float:1.5': '1.5', 'bool:True': 'true', 'NoneType:None': 'null'}

_ENG = {}

# "the default table, the legacy table": the two stock tables, written down
# here (groups of (symbol, kind[, alias]), tightest first; kinds l/r = binary
# left/right associative, p = prefix, n = name-value pair) so that the
# expected trees do not follow a change of the tables themselves
_L, _R, _PRE = (OT.BINARY_LEFT_ASSOCIATIVE, OT.BINARY_RIGHT_ASSOCIATIVE,
                OT.PREFIX_UNARY)
_COMMON_GROUPS = [
    [('[]', _L), ('{}', _L)],
    [('+', _PRE), ('-', _PRE)],
    [('=~', _L), ('!~', _L)],
    [('*', _L), ('/', _L), ('mod', _L)],
    [('+', _L), ('-', _L)],
    [('>', _L), ('<', _L), ('>=', _L), ('<=', _L), ('!=', _L, 'not_equal'),
     ('=', _L, 'equal'), ('in', _L)],
    [('not', _PRE)],
    [('and', _L)],
    [('or', _L)],
]
STOCK_GROUPS = {
    'default': [[('=>', OT.NAME_VALUE_PAIR), ('.', _L), ('?.', _L)]] +
    _COMMON_GROUPS + [[('->', _R)]],
    'legacy': [[('.', _L), ('?.', _L)]] + _COMMON_GROUPS +
    [[('=>', _L, None)], [('->', _R)]],
}


def stock_ops(base):
    out = []
    for i, g in enumerate(STOCK_GROUPS[base]):
        if i:
            out.append(())
        out.extend(g)
    return out


def engine_for(table_spec):
    """table_spec: {'base': 'default'|'legacy', 'inserts': [...], 'after':
    [...] (operators inserted into the same factory *after* the engine was
    created; they must not affect it), 'via': plain | copy | options (the
    engine itself, engine.copy(options), or engine(text, options=...))}"""
    key = repr(table_spec)
    if key not in _ENG:
        if len(_ENG) > 300:
            _ENG.clear()
        f = common.make_factory(table_spec['base'],
                                [tuple(i) for i in table_spec['inserts']])
        ops = [tuple(r) for r in f.operators]
        if not table_spec['inserts']:
            # stock table: expectations come from the pinned copy
            ops = stock_ops(table_spec['base'])
        try:
            eng = f.create()
            for ins in table_spec.get('after', []):
                f.insert_operator(*ins)
            via = table_spec.get('via', 'plain')
            if via == 'copy':
                eng = eng.copy({'yaql.limitIterators': 7})
            elif via == 'options':
                inner = eng
                eng = lambda text: inner(   # noqa: E731
                    text, options={'yaql.limitIterators': 7})
            _ENG[key] = ('ok', eng, ops)
        except yexc.InvalidOperatorTableException as e:
            _ENG[key] = ('invalid', e, ops)
        except Exception as e:   # noqa
            _ENG[key] = ('error', e, ops)
    return _ENG[key]


# --------------------------------------------------------------------------
# rendering

WORDY = set('abcdefghijklmnopqrstuvwxyzABCDEFGHIJKLMNOPQRSTUVWXYZ_0123456789')


def render(tokens, ws):
    """ws: iterator of whitespace strings placed between tokens"""
    out = []

    def sep():
        return next(ws)

    def emit(s):
        out.append(s)

    def args(arglists, close):
        for i, a in enumerate(arglists):
            if i:
                emit(',')
                emit(sep())
            walk(a)
        emit(close)

    def walk(toks):
        for i, tok in enumerate(toks):
            if i:
                emit(sep())
            k = tok[0]
            if k == 'atom':
                emit(ATOM_TEXT[tok[1]])
            elif k in ('pre', 'bin', 'suf'):
                emit(tok[1])
            elif k == 'paren':
                emit('(')
                emit(sep())
                walk(tok[1])
                emit(sep())
                emit(')')
            elif k == 'idx':
                emit('[')
                args(tok[1], ']')
            elif k == 'call':
                emit(tok[1] + '(')
                args(tok[2], ')')
            elif k == 'list':
                emit('[')
                args(tok[1], ']')
            elif k == 'map':
                emit('{')
                for j, (a, b) in enumerate(tok[1]):
                    if j:
                        emit(',')
                    walk(a)
                    emit(' => ')
                    walk(b)
                emit('}')
    walk(tokens)
    # glue: never let two word-like or two symbol-like pieces touch
    text = ''
    for piece in out:
        if text and piece and not text[-1].isspace() and \
                not piece[0].isspace():
            a, b = text[-1], piece[0]
            if (a in WORDY or a in "'\"$") and (b in WORDY or b in "'\"$"):
                text += ' '
            elif a not in WORDY and b not in WORDY and a not in '()[]{},\'"' \
                    and b not in '()[]{},\'"$':
                text += ' '
            elif a in WORDY and b == '(':
                text += ' '          # 'a (' must not become the call 'a('
            elif a == '.' and b in '0123456789' or \
                    a in '0123456789' and b == '.':
                text += ' '
        text += piece
    return text


def spaces():
    while True:
        yield ' '


def ws_from(choices):
    pool = ['', ' ', '  ', '\t', '\n', ' \r\n ']
    i = 0
    while True:
        yield pool[choices[i % len(choices)] % len(pool)] if choices else ' '
        i += 1


# --------------------------------------------------------------------------

def _adjacent_ops(tokens):
    kinds = [t[0] for t in tokens]
    bins = kinds.count('bin')
    return bins >= 2 or ('pre' in kinds and bins >= 1) or \
        ('idx' in kinds and bins >= 1) or 'suf' in kinds or any(
            t[0] in ('paren', 'call', 'list', 'map', 'idx') for t in tokens)


def _tuplify(x):
    if isinstance(x, list):
        return tuple(_tuplify(i) for i in x)
    return x


def check_program(run, case):
    spec = case['table']
    tokens = _tuplify(case['tokens'])
    st_, eng, ops = engine_for(spec)
    if st_ != 'ok':
        run.exclude('table does not build: %s' % st_)
        return
    ws = ws_from(case.get('ws') or [1])
    text = render(tokens, ws)
    got = trees.parse_outcome(eng, text)
    later = {i[2] for i in spec.get('after', [])}
    if any(t[0] in ('pre', 'bin', 'suf') and t[1] in later
           for t in _flat(tokens)):
        # the text uses a symbol that became an operator of the *factory*
        # only after this engine was created: the engine must treat the text
        # exactly like an engine of an untouched factory with the same table
        ref = engine_for({'base': spec['base'], 'inserts': spec['inserts']})
        exp = trees.parse_outcome(ref[1], text)
        run.case(case, True, cls=['program', 'later-operator-in-text',
                                  'via=' + spec.get('via', 'plain')])
        if got[:2] != exp[:2] or (got[0] == 'exc' and got[2] != exp[2]):
            run.violate('engine-follows-later-insertions', case,
                        '%r -> %s through an engine created before %r were '
                        'inserted into its factory (%s); an engine of the '
                        'same table gives %s' % (
                            text, got[:3], sorted(later),
                            spec.get('via', 'plain'), exp[:3]),
                        input_class='frozen-' + spec.get('via', 'plain'))
        return
    expected = P.parse(ops, list(tokens))
    used_inserted = any(t[0] in ('pre', 'bin', 'suf') and t[1] in {
        i[2] for i in spec['inserts']} for t in _flat(tokens))
    run.case(case, _adjacent_ops(tokens) or used_inserted,
             cls=['program', 'base=' + spec['base']] + (
                 ['custom-table'] if spec['inserts'] else []) + (
                 ['uses-inserted-operator'] if used_inserted else []))
    ic = 'custom-table' if spec['inserts'] else spec['base']
    if got[0] != 'ok':
        run.violate('valid-program-rejected', case,
                    '%r -> %s; table says %s' % (text, got[1:], expected),
                    input_class=ic)
        return
    if got[1] != expected:
        run.violate('tree-differs-from-table', case,
                    '%r parsed as %s; the operator table dictates %s' % (
                        text, got[1], expected), input_class=ic)
        return
    # whitespace never changes the tree
    plain = render(tokens, spaces())
    if plain != text:
        got2 = trees.parse_outcome(eng, plain)
        if got2 != got:
            run.violate('whitespace-changes-tree', case,
                        '%r -> %s but %r -> %s' % (text, got[1], plain,
                                                   got2[1:]), input_class=ic)


def _flat(tokens):
    for t in tokens:
        yield t
        if t[0] == 'paren':
            yield from _flat(t[1])
        elif t[0] in ('idx', 'list'):
            for a in t[1]:
                yield from _flat(a)
        elif t[0] == 'call':
            for a in t[2]:
                yield from _flat(a)
        elif t[0] == 'map':
            for a, b in t[1]:
                yield from _flat(a)
                yield from _flat(b)


def check_table(run, case):
    """the table insert_operator produces is the one its arguments ask for;
    tables that repeat a symbol with the same arity must be rejected at
    create(); all others must build"""
    spec = case['table']
    st_, eng, ops = engine_for(spec)
    base_ops = [tuple(r) for r in common.make_factory(spec['base']).operators]
    model = P.groups_of(base_ops)
    for ins in spec['inserts']:
        model = P.insert(model, *ins)
    if spec['inserts'] and not P.same_groups(model, P.groups_of(ops)):
        run.case(case, True, cls=['table'])
        run.violate('insert-operator-builds-other-table', case,
                    'inserts %r on the %s table give groups %r; the '
                    'arguments ask for %r' % (
                        spec['inserts'], spec['base'], P.groups_of(ops),
                        model), input_class='table')
        return
    invalid = P.Table(ops).invalid(ops)
    run.case(case, bool(spec['inserts']), cls=['table', (
        'model-invalid' if invalid else 'model-valid')])
    if invalid and st_ == 'ok':
        run.violate('invalid-table-accepted', case, 'operators %r' % (ops,),
                    input_class='table')
    elif not invalid and st_ != 'ok':
        run.violate('valid-table-rejected', case, 'operators %r: %s %s' % (
            ops, st_, eng), exc=eng if isinstance(eng, Exception) else None,
            input_class='table')


REPLAY = {'program': check_program, 'table': check_table}


# --------------------------------------------------------------------------
# exhaustive part (stock tables)

def check_stock(run, case):
    """the factories build the two stock tables"""
    base = case['base']
    ops = [tuple(r) for r in common.make_factory(base).operators]
    run.case(case, True, cls=['stock-table'])
    if not P.same_groups(P.groups_of(ops), P.groups_of(stock_ops(base))):
        run.violate('stock-table-differs', case,
                    'the %s factory builds %r; the %s table is %r' % (
                        base, P.groups_of(ops), base,
                        P.groups_of(stock_ops(base))), input_class=base)


REPLAY['stock'] = check_stock


def stock_symbols(base):
    t = P.Table(stock_ops(base))
    return sorted(t.binary), sorted(t.prefix)


def _exhaustive_shard(run, base, nops, first_ops):
    bins, pres = stock_symbols(base)
    spec = {'base': base, 'inserts': []}
    operands = [[('atom', 'kw:a')], [('atom', 'kw:b')], [('atom', 'kw:c')],
                [('atom', 'kw:d')]]
    prefix_places = [()]
    n_operands = nops + 1
    for i in range(n_operands):
        for p in pres:
            prefix_places.append(((i, p),))
    for i, j in itertools.combinations(range(n_operands), 2):
        for p in pres:
            for q in pres:
                prefix_places.append(((i, p), (j, q)))
    for p in pres:
        for q in pres:
            prefix_places.append(((0, p), (0, q)))
    idx_places = [None] + list(range(n_operands))
    for first in first_ops:
        for rest in itertools.product(bins, repeat=nops - 1):
            seq = (first,) + rest
            for pp in prefix_places:
                for ip in idx_places:
                    toks = []
                    for i in range(n_operands):
                        for (pos, p) in pp:
                            if pos == i:
                                toks.append(('pre', p))
                        toks.extend(operands[i])
                        if ip == i:
                            toks.append(('idx', ((('atom', 'int:7'),),)))
                        if i < nops:
                            toks.append(('bin', seq[i]))
                    check_program(run, {'kind': 'program', 'table': spec,
                                        'tokens': toks})


# --------------------------------------------------------------------------
# random programs and custom tables

NEW_SYMBOLS = [':', '::', '~', '^', '%', '&', '|', '<>', '**', '//', '!', '@',
               'xor', 'div', 'implies', '#', '#>', ';', '?', '??', '\\',
               '=#', '+-', 'is', 'like', 'not_in', 'pow2', 'is_set', 'x2y',
               'not_in', 'is_set']


@st.composite
def table_specs(draw, allow_invalid=False):
    base = draw(st.sampled_from(['default', 'default', 'legacy']))
    f = common.make_factory(base)
    ops = [tuple(r) for r in f.operators]
    inserts = []
    pool = list(NEW_SYMBOLS)
    for _ in range(draw(st.integers(0, 4))):
        t = P.Table(ops)
        sym = draw(st.sampled_from(pool))
        pool = [x for x in pool if x != sym]
        kind = draw(st.sampled_from(['bin-l', 'bin-r', 'pre', 'suf']))
        create_group = draw(st.booleans())
        alias = draw(st.sampled_from([None, None, 'al_' + str(len(inserts))]))
        # anchor: an existing operator with the right flag, or None (head)
        anchors = [(s, True) for s in t.binary if s not in ('[]', '{}')] + \
            [(s, False) for s in t.prefix] + [(s, False) for s in t.suffix]
        anchor = draw(st.one_of(st.none(), st.sampled_from(anchors)))
        typ = {'bin-l': OT.BINARY_LEFT_ASSOCIATIVE,
               'bin-r': OT.BINARY_RIGHT_ASSOCIATIVE,
               'pre': OT.PREFIX_UNARY, 'suf': OT.SUFFIX_UNARY}[kind]
        if not create_group:
            # joining the anchor's group must keep it homogeneous
            if anchor is None:
                create_group = True
            else:
                a_sym, a_bin = anchor
                if a_sym in t.suffix and not a_bin:
                    ok = kind == 'suf'
                elif a_bin:
                    assoc = t.binary[a_sym][1]
                    g = t.binary[a_sym][0]
                    has_suffix = any(v == g for v in t.suffix.values())
                    ok = not has_suffix and (
                        kind == 'pre' or kind == 'bin-' + assoc)
                    # the '.' / '[]' groups are left alone
                    ok = ok and g > 2
                else:
                    g = t.prefix[a_sym]
                    assocs = {v[1] for v in t.binary.values() if v[0] == g}
                    ok = kind == 'pre' or (
                        kind.startswith('bin') and
                        assocs <= {kind[-1]})
                if not ok:
                    create_group = True
        ins = (anchor[0] if anchor else None, anchor[1] if anchor else None,
               sym, typ, create_group, alias)
        f.insert_operator(*ins)
        ops = [tuple(r) for r in f.operators]
        inserts.append(list(ins))
    if allow_invalid and draw(st.integers(0, 3)) == 0:
        t = P.Table(ops)
        dup = draw(st.sampled_from(sorted(t.binary)))
        if dup not in ('[]', '{}'):
            inserts.append([None, None, dup, OT.BINARY_LEFT_ASSOCIATIVE, True,
                            None])
    return {'base': base, 'inserts': inserts}


@st.composite
def programs(draw, spec, depth=0):
    f = common.make_factory(spec['base'], [tuple(i) for i in spec['inserts']
                                           + spec.get('after', [])])
    t = P.Table([tuple(r) for r in f.operators])
    bins = sorted(t.binary)
    pres = sorted(t.prefix)
    sufs = sorted(t.suffix)
    inserted = [i[2] for i in spec['inserts'] + spec.get('after', [])]

    def seq(d, maxops):
        toks = []
        n = draw(st.integers(0, maxops))
        for i in range(n + 1):
            for _ in range(draw(st.sampled_from([0, 0, 0, 1, 1, 2]))):
                if pres:
                    toks.append(('pre', draw(st.sampled_from(pres))))
            toks.extend(operand(d))
            for _ in range(draw(st.sampled_from([0, 0, 0, 1, 2]))):
                if sufs and draw(st.booleans()):
                    toks.append(('suf', draw(st.sampled_from(sufs))))
                elif t.index_group is not None:
                    toks.append(('idx', tuple(
                        tuple(seq(d + 1, 1)) for _ in range(
                            draw(st.integers(0, 2))))))
            if i < n:
                pool = bins
                if inserted and draw(st.booleans()):
                    pool = [b for b in bins if b in inserted] or bins
                toks.append(('bin', draw(st.sampled_from(pool))))
        return toks

    def operand(d):
        k = draw(st.integers(0, 9 if d < 2 else 4))
        if k <= 4:
            return [('atom', draw(st.sampled_from(sorted(ATOM_TEXT))))]
        if k <= 6:
            return [('paren', tuple(seq(d + 1, 3)))]
        if k == 7:
            return [('call', draw(st.sampled_from(['f', 'g', 'len'])), tuple(
                tuple(seq(d + 1, 2)) for _ in range(draw(st.integers(0, 3)))))]
        if k == 8 and t.index_group is not None:
            return [('list', tuple(
                tuple(seq(d + 1, 2)) for _ in range(draw(st.integers(0, 3)))))]
        if k == 9 and spec['base'] == 'default':
            return [('map', tuple(
                (tuple([('atom', draw(st.sampled_from(['kw:a', "str:'s'"])))]),
                 tuple(seq(d + 1, 2)))
                for _ in range(draw(st.integers(0, 2)))))]
        return [('atom', 'kw:a')]
    toks = seq(0, 12 if depth == 0 else 3)
    return {'kind': 'program', 'table': spec, 'tokens': toks,
            'ws': draw(st.lists(st.integers(0, 5), min_size=1, max_size=12))}


def _random_shard(run, n, shard):
    stock = st.sampled_from([{'base': 'default', 'inserts': []},
                             {'base': 'legacy', 'inserts': []}])
    run.hyp('random-programs', stock.flatmap(programs),
            lambda c: check_program(run, c), n, shard=shard)


@st.composite
def frozen_specs(draw):
    """an engine is created part-way through a sequence of insertions into
    one factory and used directly, through copy() or with per-call options:
    its trees follow the table it was created from"""
    spec = draw(table_specs().filter(lambda s_: s_['inserts']))
    k = draw(st.integers(0, len(spec['inserts']) - 1))
    return {'base': spec['base'], 'inserts': spec['inserts'][:k],
            'after': spec['inserts'][k:],
            'via': draw(st.sampled_from(['plain', 'copy', 'options']))}


@st.composite
def table_pairs(draw):
    """two tables holding the same operator records in different places"""
    a = draw(table_specs())
    if not a['inserts']:
        return [a]
    f = common.make_factory(a['base'])
    ops = [tuple(r) for r in f.operators]
    inserts = []
    for ins in a['inserts']:
        t = P.Table(ops)
        kind_bin = ins[3] in (OT.BINARY_LEFT_ASSOCIATIVE,
                              OT.BINARY_RIGHT_ASSOCIATIVE)
        anchors = [(s_, True) for s_ in t.binary if s_ not in ('[]', '{}')
                   and t.binary[s_][0] > 2]
        anchor = draw(st.one_of(st.none(), st.sampled_from(anchors)))
        new_ins = [anchor[0] if anchor else None,
                   anchor[1] if anchor else None, ins[2], ins[3], True,
                   ins[5]]
        f.insert_operator(*new_ins)
        ops = [tuple(r) for r in f.operators]
        inserts.append(new_ins)
    return [a, {'base': a['base'], 'inserts': inserts}]


def directed_specs():
    """every kind of operator joined to (or put next to) every kind of
    group the stock tables have, plus a second operator joined to the
    freshly made group: the homogeneous combinations must all build"""
    out = []
    kinds = {'bin-l': OT.BINARY_LEFT_ASSOCIATIVE,
             'bin-r': OT.BINARY_RIGHT_ASSOCIATIVE,
             'pre': OT.PREFIX_UNARY, 'suf': OT.SUFFIX_UNARY}
    # anchors: (symbol, is-binary, what may join its group)
    anchors = [('+', True, ('bin-l', 'pre')), ('->', True, ('bin-r', 'pre')),
               ('not', False, ('pre', 'bin-l', 'bin-r')),
               ('and', True, ('bin-l', 'pre')), ('*', True, ('bin-l', 'pre'))]
    for base in ('default', 'legacy'):
        for sym, is_bin, joiners in anchors:
            for kind, typ in kinds.items():
                for create in (True, False):
                    if not create and kind not in joiners:
                        continue
                    first = [sym, is_bin, '@@', typ, create, None]
                    out.append({'base': base, 'inserts': [first]})
                    # a second operator joins the group of the first
                    for kind2, typ2 in kinds.items():
                        if kind == 'suf':
                            ok = kind2 == 'suf'
                        elif kind == 'pre':
                            ok = create and kind2 in ('pre', 'bin-l',
                                                      'bin-r')
                        else:
                            ok = create and kind2 in (kind, 'pre')
                        if ok:
                            out.append({'base': base, 'inserts': [
                                first, ['@@', kind.startswith('bin'), '%%',
                                        typ2, False, None]]})
    return out


def _directed_shard(run, specs):
    for spec in specs:
        check_table(run, {'kind': 'table', 'table': spec})
        run.hyp('directed-programs', st.tuples(programs(spec), programs(spec)),
                lambda cs: [check_program(run, c) for c in cs], 3,
                shard=hash(repr(spec)) % 1000)


def _custom_shard(run, ntables, nprog, shard):
    run.hyp('table-pairs', table_pairs().flatmap(
        lambda specs: st.tuples(*[programs(sp) for sp in specs + specs[:1]])),
        lambda cs: [check_program(run, c) for c in cs],
        max(ntables // 2, 4), shard=shard)
    run.hyp('custom-tables', table_specs().flatmap(
        lambda spec: st.tuples(*[programs(spec) for _ in range(3)])),
        lambda cs: [check_program(run, c) for c in cs],
        ntables * nprog // 3, shard=shard)
    run.hyp('engine-keeps-its-table', frozen_specs().flatmap(
        lambda spec: st.tuples(*[programs(spec) for _ in range(3)])),
        lambda cs: [check_program(run, c) for c in cs],
        ntables * nprog // 6, shard=shard)
    run.hyp('table-validity', table_specs(allow_invalid=True).map(
        lambda spec: {'kind': 'table', 'table': spec}),
        lambda c: check_table(run, c), ntables, shard=shard)


def run(run):
    full = run.tier == 'thorough'
    for base in ('default', 'legacy'):
        check_stock(run, {'kind': 'stock', 'base': base})
    jobs = []
    for base in ('default', 'legacy'):
        bins, pres = stock_symbols(base)
        for nops in ((1, 2, 3) if full else (1, 2)):
            step = 1 if nops == 3 else 3
            for i in range(0, len(bins), step):
                jobs.append((base, nops, bins[i:i + step]))
    run.shards(_exhaustive_shard, jobs)
    run.extra['exhaustive_subspace'] = (
        'default and legacy tables: every sequence of <=%d infix operators x '
        'every placement of <=2 prefix operators (incl. two on the first '
        'operand) x an index suffix on none or one operand' % (
            3 if full else 2))
    k = 8
    run.shards(_random_shard, [((20000 if full else 1200) // k, i)
                               for i in range(k)])
    run.shards(_custom_shard, [((1000 if full else 64) // k, 30, i)
                               for i in range(k)])
    ds = directed_specs()
    if not full:
        ds = ds[run.seed % 2::2]
    run.shards(_directed_shard, [(ds[i::16],) for i in range(16)])

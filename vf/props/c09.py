"""C09 - evaluation has no side effects on host data, context or statement.

(a) sweep: every registered definition called with mutable host lists, dicts
    and sets in every position (through `$` in both yaql.convertInputData
    modes and through context variables); deep snapshots before/after, result
    mutation for aliasing, snapshot of the whole host context chain.
(b) histories: a pool of parsed statements evaluated in generated order
    against one shared parent context, each in a fresh child (Hypothesis
    state machine); re-evaluation must give equal results.
"""
import collections.abc

from hypothesis import strategies as st
from hypothesis.stateful import RuleBasedStateMachine, initialize, rule

from vf import common, stdlib_walk as W
from yaql.language import contexts, specs, yaqltypes
from yaql.language import utils as yutils

RULE = ('(a) every registered definition x fillings x 4 modes (data through '
        '$ with input conversion on / off, context variables, and tuples '
        'holding mutable containers with raw output) with mutable '
        'nested containers in every collection-, dict-, set- and '
        'object-typed position; oracle: deep snapshot of the data and of '
        'every context of the host chain before = after (also when the '
        'evaluation raises), mutating every container of the result leaves '
        'the data unchanged, no result container is identical to a host '
        'container; (b) state machine: statements from a pool of 41 x generated documents '
        'evaluated in generated order in fresh children of one shared '
        'parent (a library context of the history\'s own); every outcome '
        'is also compared with the statement parsed anew and evaluated '
        'under a library and host chain nothing was evaluated under before; '
        'raw-output probes over tuples holding mutable containers; '
        'non-trivial: (a) the evaluation succeeded and a mutable '
        'container reached the payload; (b) a statement or the parent was '
        're-used >= 2 times; distinct = distinct case')
ASSUMPTIONS = [
    'granted methods of yaqlized objects may mutate the host object; not '
    'generated',
    'now() and random() are excluded from the re-evaluation oracle',
]


def mutable(v):
    if isinstance(v, (tuple, list)):
        return [mutable(i) for i in v]
    if isinstance(v, (dict, yutils.FrozenDict)):
        return {k: mutable(w) for k, w in v.items()}
    if isinstance(v, (set, frozenset)):
        return set(v)
    return v


def tuple_mixed(v, depth=0):
    """host data in which immutable tuples hold mutable lists, dicts and
    sets (and vice versa): tuples at even depth, lists at odd depth"""
    if isinstance(v, (tuple, list)):
        items = [tuple_mixed(i, depth + 1) for i in v]
        return tuple(items) if depth % 2 == 0 else items
    if isinstance(v, (dict, yutils.FrozenDict)):
        return {k: tuple_mixed(w, depth + 1) for k, w in v.items()}
    if isinstance(v, (set, frozenset)):
        return set(v)
    return v


def _engine(convert_input, convert_output=True):
    return common.engine({'yaql.limitIterators': 300,
                          'yaql.memoryQuota': 10 ** 6,
                          'yaql.convertInputData': convert_input,
                          'yaql.convertOutputData': convert_output})


_S = {}


def _lib():
    if 'ctx' not in _S:
        _S['entered'] = []
        _S['ctx'] = W.clone_context(on_enter=lambda d, a, kw: _S[
            'entered'].append((d.id, any(
                isinstance(x, (list, dict, set)) for x in
                list(a) + list(kw.values())))))
    return _S['ctx']


def ctx_snapshot(ctx):
    """keys, values (by snapshot and identity of containers) and function
    sets of every context of a chain"""
    out = []
    p = ctx
    while p is not None:
        data = getattr(p, '_data', None)
        if data is None:
            break
        funcs = getattr(p, '_functions', {})
        out.append((
            tuple((k, common.snapshot(v), id(v)) for k, v in data.items()),
            tuple(sorted((n, tuple(sorted(id(f) for f in fs)))
                         for n, fs in funcs.items())),
            tuple(sorted(getattr(p, '_exclusive_funcs', ())))))
        p = p.parent
    return out


def host_function(x=0):
    return x


def host_scratch(yaql_interface, value=0):
    """a host extension that uses the documented yaql_interface parameter
    and keeps a scratch variable through it: the variable lives in the
    function's own call scope"""
    yaql_interface['scratch'] = value
    return yaql_interface('$scratch + 1')


def host_scaled(context, value=0):
    """host extension whose answer depends on a variable of the context the
    call is made in"""
    f = context['$factor']
    return value * (1 if f is None else f)


@specs.parameter('name', yaqltypes.StringConstant())
@specs.name('#get_context_data')
def masked_context_data(name, context):
    """the documented override point of variable reads: evaluations for
    untrusted users get a context in which this masks a variable"""
    if name == '$secret':
        return '***'
    return context[name]


VARIANTS = 4


def prepare_variant(host, variant):
    """the context the host prepares for one evaluation: 0 plain, 1 / 2
    $factor = 3 / 5, 3 variable reads overridden (masking $secret)"""
    prep = host.create_child_context()
    prep['$secret'] = 'hunter2'
    if variant in (1, 2):
        prep['$factor'] = 3 if variant == 1 else 5
    if variant == 3:
        prep.register_function(masked_context_data)
    return prep


SETUP_RESIDUE = []


def make_host_chain(lib):
    """library -> host child with variables and a function -> evaluation ctx"""
    host = lib.create_child_context()
    host['$hostList'] = [1, [2, 3], {'a': [4]}]
    host['$hostDict'] = {'k': [1, 2], 'd': {'x': 1}}
    host['$hostSet'] = {1, 2}
    host.register_function(host_function, name='hostFn')
    host.register_function(host_scratch, name='hostScratch')
    host.register_function(host_scaled, name='hostScaled')
    # helpers the host defined in yaql itself: def() hands back the context
    # that holds the function; it is part of the prepared chain and lives as
    # long as the host does
    SETUP_RESIDUE[:] = []
    try:
        eng = common.engine()
        # (each def() is given a context made for it; like every supplied
        # context it must come back as it went in - see run_history)
        given = host.create_child_context()
        prepared = eng('def(total, $1 + coalesce($2, 0))').evaluate(
            context=given)
        leak = supplied_context_residue(given)
        given = prepared.create_child_context()
        prepared = eng('def(scale, $1 * coalesce($factor, 1))').evaluate(
            context=given)
        leak = leak or supplied_context_residue(given)
        if leak:
            SETUP_RESIDUE.append(leak)
        prepared['$twice'] = eng('lambda($ * 2 + coalesce($2, 0))').evaluate(
            context=common.std_context(delegates=True))
        host = prepared
    except Exception:   # noqa
        pass
    return host, host.create_child_context()


def supplied_context_residue(ctx):
    """what an evaluation left in the (fresh) context it was given, apart
    from the binding of $"""
    keys = [k for k in ctx.keys() if k != '$1']
    funcs = sorted(n for n, fs in getattr(ctx, '_functions', {}).items()
                   if fs)
    out = []
    if keys:
        out.append('variables %r' % keys)
    if funcs:
        out.append('functions %r' % funcs)
    return ', '.join(out)


def mutate_result(x, depth=0, seen=None):
    """add a sentinel to every mutable container reachable in the result"""
    if seen is None:
        seen = set()
    if depth > 30 or id(x) in seen:
        return
    seen.add(id(x))
    if isinstance(x, list):
        for i in list(x):
            mutate_result(i, depth + 1, seen)
        x.append('<sentinel>')
    elif isinstance(x, dict):
        for v in list(x.values()):
            mutate_result(v, depth + 1, seen)
        x['<sentinel>'] = 1
    elif isinstance(x, set):
        x.add('<sentinel>')
    elif isinstance(x, tuple):
        for i in x:
            mutate_result(i, depth + 1, seen)


def shared_containers(result, host_ids, depth=0, seen=None):
    if seen is None:
        seen = set()
    out = []
    if depth > 30 or id(result) in seen:
        return out
    seen.add(id(result))
    if isinstance(result, (list, dict, set)) and id(result) in host_ids:
        out.append(type(result).__name__)
    if isinstance(result, dict):
        for v in result.values():
            out += shared_containers(v, host_ids, depth + 1, seen)
    elif isinstance(result, (list, tuple, set, frozenset)):
        for v in result:
            out += shared_containers(v, host_ids, depth + 1, seen)
    return out


def check_sweep(run, case):
    defs = {d.id: d for d in W.definitions()}
    d = defs.get(case['def'])
    if d is None:
        run.exclude('definition no longer registered')
        return
    mode = case['mode']
    lib = _lib()
    call = W.default_call(d, case.get('fill', 0))
    data = {}
    binds = {}

    def place(f):
        kind, v = f
        if kind != 'var':
            return f
        key = 'k%d' % len(data)
        if isinstance(v, collections.abc.Iterator):
            binds[key] = v
            return ('src', '$' + key)
        data[key] = tuple_mixed((mutable(v), [mutable(v)])) \
            if mode == 'data-rawout' else mutable(v)
        if mode == 'data-rawout':
            return ('src', '$.%s[%d]' % (key, len(data) % 2) + (
                '[0]' if len(data) % 2 else ''))
        return ('src', ('$.' + key) if mode != 'vars' else ('$' + key))
    positional = [place(f) for f in call.positional]
    kw = [(k, place(f)) for k, f in call.kw]
    text, _ = W.Call(d, positional, kw).render()
    host, ctx = make_host_chain(lib)
    for k, v in binds.items():
        ctx['$' + k] = v
    if mode == 'vars':
        for k, v in data.items():
            host['$' + k] = v
    before = common.snapshot(data)
    host_before = ctx_snapshot(host)
    host_ids = set(common.mutable_containers(data))
    for name in ('$hostList', '$hostDict', '$hostSet'):
        host_ids |= set(common.mutable_containers(host[name]))
    del _S['entered'][:]
    # data-rawout: input conversion on, output conversion off - what the
    # expression returns is what it holds, and that must not be host data
    eng = _engine(mode != 'data-raw', mode != 'data-rawout')
    try:
        stmt = eng(text)
        if mode == 'vars':
            out = ('ok', stmt.evaluate(context=ctx))
        else:
            out = ('ok', stmt.evaluate(data=data, context=ctx))
    except Exception as e:   # noqa
        out = ('exc', e)
    reached = any(i == d.id and m for i, m in _S['entered'])
    run.case(case, out[0] == 'ok' and (reached or mode == 'data'),
             cls=['sweep', 'mode=' + mode] + (
                 ['mutable-reached-payload'] if reached else []))
    ic = '%s/%s' % (d.fd.name, mode)
    if common.snapshot(data) != before:
        run.violate('host-data-mutated', case,
                    '%s changed the host data: before %r, after %r' % (
                        text, before, common.snapshot(data)),
                    input_class=ic)
        return
    if ctx_snapshot(host) != host_before:
        run.violate('host-context-changed', case,
                    '%s changed the host context chain' % text,
                    input_class=ic)
        return
    residue = [k for k in ctx.keys() if k != '$1' and k[1:] not in binds]
    funcs = sorted(n for n, fs in getattr(ctx, '_functions', {}).items()
                   if fs)
    if residue or funcs:
        run.violate('supplied-context-changed', case,
                    '%s left variables %r / functions %r in the context '
                    'passed to evaluate()' % (text, residue, funcs),
                    input_class=ic)
        return
    if out[0] == 'ok':
        shared = shared_containers(out[1], host_ids)
        if shared:
            run.violate('result-aliases-host-data', case,
                        '%s returned a structure containing the very %s '
                        'object(s) of the host' % (text, shared),
                        input_class=ic)
            return
        mutate_result(out[1])
        if common.snapshot(data) != before or \
                ctx_snapshot(host) != host_before:
            run.violate('mutating-result-changes-host', case,
                        '%s: mutating the result changed host data or '
                        'context' % text, input_class=ic)


RAW_PROBES = ['$', '$.t', '$.t[0]', '$.t[1].a', 'dict(x => $.t[0]).x',
              '$.values().toList()', '$.t.select($)', '[$.t[0], $.t[2]]',
              '$.t.toList()', '$.l', '$.l[0]', '$.l[0][0]', '$.d.k',
              'let(x => $.t[0]) -> [$x]', '$.t.where(true).first()',
              '$.t.reverse().last()', '$.d.values().first()',
              '$.t.take(1) + $.l', '$.t.zip($.l).first()',
              '$.d.items().first()[1]', 'list($.t[0], $.l).first()']


def check_rawout(run, case):
    """raw results (output conversion off, input conversion on) never hold
    the host's own mutable containers"""
    text = RAW_PROBES[case['probe'] % len(RAW_PROBES)]
    data = {'t': ([1, 2], {'a': [3]}, {4}), 'l': [([5], {'b': (6, [7])})],
            'd': {'k': ([8],)}}
    if case.get('top') == 'tuple':
        data = (data['t'], data['l'], data['d'])
        text = text.replace('$.t', '$[0]').replace('$.l', '$[1]').replace(
            '$.d', '$[2]').replace('$.values().toList()', '$.toList()')
    before = common.snapshot(data)
    host_ids = set(common.mutable_containers(data))
    try:
        out = ('ok', _engine(True, False)(text).evaluate(
            data=data, context=common.child()))
    except Exception as e:   # noqa
        out = ('exc', e)
    run.case(case, out[0] == 'ok', cls=['raw-output-probe'])
    if out[0] != 'ok':
        return
    res = out[1]
    if isinstance(res, collections.abc.Iterator):
        res = list(res)
    shared = shared_containers(res, host_ids)
    if shared:
        run.violate('result-aliases-host-data', case,
                    '%s on %r returned a structure containing the very %s '
                    'object(s) of the host' % (text, data, shared),
                    input_class='rawout')
        return
    mutate_result(res)
    if common.snapshot(data) != before:
        run.violate('mutating-result-changes-host', case,
                    '%s: mutating the result changed the host data' % text,
                    input_class='rawout')


LINEAGE_TEXTS = ['$.a', '$', '$.b.distinct()', '[$.a, $.b]',
                 '$.a.where($ > 1)', 'dict(x => $.a)', '$.b.first()']
RAW_OPTS = {'yaql.convertInputData': False, 'yaql.convertOutputData': False}


def check_lineage(run, case):
    """an engine, its copies and its per-call-option forms parse the same
    texts in some order; whatever a statement is parsed by decides how it is
    evaluated - the default engine converts, the raw forms do not"""
    text = LINEAGE_TEXTS[case['text'] % len(LINEAGE_TEXTS)]
    base = common.engine(cache=False)
    forms = {'default': lambda: base(text),
             'copy-raw': lambda: base.copy(dict(RAW_OPTS))(text),
             'percall-raw': lambda: base(text, dict(RAW_OPTS)),
             'copy-default': lambda: base.copy({})(text)}
    bad = None
    for form in case['order']:
        data = {'a': [3, 1, 2], 'b': [[1, 2], [1, 2], [3]]}
        host_ids = set(common.mutable_containers(data))
        try:
            out = ('ok', forms[form]().evaluate(data=data,
                                                context=common.child()))
        except Exception as e:   # noqa
            out = ('exc', type(e).__name__)
        if 'raw' in form:
            continue
        try:
            exp = ('ok', common.snapshot(common.engine(cache=False)(
                text).evaluate(data={'a': [3, 1, 2], 'b': [[1, 2], [1, 2],
                                                            [3]]},
                               context=common.child())))
        except Exception as e:   # noqa
            exp = ('exc', type(e).__name__)
        got = ('ok', common.snapshot(out[1])) if out[0] == 'ok' else out
        if got != exp:
            bad = ('evaluation-depends-on-history',
                   '%s parsed by the %s form after %r: %r; a new default '
                   'engine: %r' % (text, form, case['order'], got, exp))
            break
        if out[0] == 'ok':
            shared = shared_containers(out[1], host_ids)
            if shared:
                bad = ('result-aliases-host-data',
                       '%s parsed by the %s form after %r returned the '
                       'host\'s own %s' % (text, form, case['order'], shared))
                break
    run.case(case, len(case['order']) >= 2, cls=['engine-lineage'])
    if bad:
        run.violate(bad[0], case, bad[1], input_class='lineage')


# host collections that are not the built-in types: mappings, sequences and
# sets defined through the abstract base classes or the collections module

def _host_collections():
    import collections as C

    class MyMap(C.abc.MutableMapping):
        def __init__(self, d):
            self.d = d

        def __getitem__(self, k):
            return self.d[k]

        def __setitem__(self, k, v):
            self.d[k] = v

        def __delitem__(self, k):
            del self.d[k]

        def __iter__(self):
            return iter(self.d)

        def __len__(self):
            return len(self.d)

    class MySeq(C.abc.MutableSequence):
        def __init__(self, l):
            self.l = l

        def __getitem__(self, i):
            return self.l[i]

        def __setitem__(self, i, v):
            self.l[i] = v

        def __delitem__(self, i):
            del self.l[i]

        def __len__(self):
            return len(self.l)

        def insert(self, i, v):
            self.l.insert(i, v)

    return {
        'UserDict': lambda: C.UserDict({'k': [1, 2], 'n': {'x': [3]}}),
        'ChainMap': lambda: C.ChainMap({'k': [1, 2]}, {'n': {'x': [3]}}),
        'MutableMapping': lambda: MyMap({'k': [1, 2], 'n': {'x': [3]}}),
        'OrderedDict': lambda: C.OrderedDict(k=[1, 2], n={'x': [3]}),
        'defaultdict': lambda: C.defaultdict(list, k=[1, 2]),
        'UserList': lambda: C.UserList([[1, 2], {'x': [3]}]),
        'deque': lambda: C.deque([[1, 2], {'x': [3]}]),
        'MutableSequence': lambda: MySeq([[1, 2], {'x': [3]}]),
        # mutable buffers are mutable sequences too
        'bytearray': lambda: bytearray(b'abc'),
        'array': lambda: __import__('array').array('i', [1, 2, 3]),
    }


HOSTCOLL_TEXTS = ['{v}', '[{v}]', 'dict(x => {v})', '[{v}, 1].first()',
                  'let(y => {v}) -> $y', '[[{v}]].select($)',
                  'coalesce(null, {v})', 'switch(true => {v})']


def _ids_inside(obj, depth=0, out=None):
    """identities of the object and of every mutable thing reachable in it
    (attributes of wrapper classes included)"""
    if out is None:
        out = set()
    if depth > 8 or id(obj) in out:
        return out
    if isinstance(obj, (str, bytes, int, float, bool, type(None))):
        return out
    out.add(id(obj))
    if isinstance(obj, collections.abc.Mapping):
        for v in list(obj.values()):
            _ids_inside(v, depth + 1, out)
    elif isinstance(obj, (collections.abc.Sequence, collections.abc.Set)):
        for v in list(obj):
            _ids_inside(v, depth + 1, out)
    for attr in ('data', 'd', 'l', 'maps'):
        if hasattr(obj, attr):
            _ids_inside(getattr(obj, attr), depth + 1, out)
    return out


def _any_shared(res, ids, depth=0, seen=None):
    if seen is None:
        seen = set()
    if depth > 30 or id(res) in seen:
        return None
    seen.add(id(res))
    if isinstance(res, (str, bytes, int, float, bool, type(None))):
        return None
    if id(res) in ids:
        return type(res).__name__
    kids = []
    if isinstance(res, collections.abc.Mapping):
        kids = list(res.values())
    elif isinstance(res, (list, tuple, set, frozenset)):
        kids = list(res)
    for k in kids:
        r = _any_shared(k, ids, depth + 1, seen)
        if r:
            return r
    return None


def check_hostcoll(run, case):
    """a host collection of a non-built-in type reaches the expression as a
    context variable or unconverted data; what the evaluation returns must
    be plain data of its own"""
    make = _host_collections()[case['type']]
    obj = make()
    snap = repr(obj)
    tpl = HOSTCOLL_TEXTS[case['text'] % len(HOSTCOLL_TEXTS)]
    ctx = common.child()
    if case.get('via') == 'raw-data':
        text = tpl.format(v='$.v')
        kw = {'data': {'v': obj}}
        eng = _engine(False)
    else:
        text = tpl.format(v='$v')
        ctx['$v'] = obj
        kw = {}
        eng = _engine(True)
    ids = _ids_inside(obj)
    try:
        out = ('ok', eng(text).evaluate(context=ctx, **kw))
    except Exception as e:   # noqa
        out = ('exc', e)
    run.case(case, out[0] == 'ok', cls=['host-collection',
                                       'type=' + case['type']])
    ic = 'hostcoll:%s' % case['type']
    if repr(obj) != snap:
        run.violate('host-data-mutated', case, '%s changed %s' % (
            text, case['type']), input_class=ic)
        return
    if out[0] != 'ok':
        return
    shared = _any_shared(out[1], ids)
    if shared:
        run.violate('result-aliases-host-data', case,
                    '%s with a host %s returned a structure containing the '
                    'host\'s own %s object' % (text, case['type'], shared),
                    input_class=ic)
        return
    mutate_result(out[1])
    if repr(obj) != snap:
        run.violate('mutating-result-changes-host', case,
                    '%s: mutating the result changed the host %s' % (
                        text, case['type']), input_class=ic)


def check_eval_history(run, case):
    """yaql.eval with one document object that the host updates in place
    between the calls: every call answers for the document as it is"""
    import copy as _copy
    import yaql as _yaql
    doc = {'items': [3, 1, 2], 'd': {'k': [1]}, 'name': 'n',
           'prices': {'a': 1, 'b': 2}}
    if case.get('view'):
        doc['prices'] = doc['prices'].values()
    bad = None
    for step in case['steps']:
        if step[0] == 'mutate':
            which = step[1] % 3
            if which == 0:
                doc['items'].append(len(doc['items']) + 10)
            elif which == 1:
                doc['d']['k'].append(7)
            else:
                doc['name'] = doc['name'] + 'x'
            continue
        text = ['$.items.len()', '$.items', '$.d.k', '$.name', '$',
                '$.items.sum()', '$.d', '$.prices.sum()' if case.get('view')
                else '$.prices.values().sum()'][step[1] % 8]
        try:
            got = ('ok', common.snapshot(_yaql.eval(text, doc)))
        except Exception as e:   # noqa
            got = ('exc', type(e).__name__)
        fresh = _copy.deepcopy(doc) if not case.get('view') else dict(
            doc, prices={'a': 1, 'b': 2}.values())
        try:
            exp = ('ok', common.snapshot(common.engine()(text).evaluate(
                data=fresh, context=common.child())))
        except Exception as e:   # noqa
            exp = ('exc', type(e).__name__)
        if got != exp:
            bad = (text, got, exp)
            break
    run.case(case, any(s[0] == 'mutate' for s in case['steps']),
             cls=['yaql.eval-history'])
    if bad:
        run.violate('evaluation-depends-on-history', case,
                    'yaql.eval(%r, doc) after the host updated doc in '
                    'place: %r; a fresh evaluation of an equal document: %r'
                    % bad, input_class='yaql.eval')


# --------------------------------------------------------------------------
# (b) histories

POOL = [
    '$.items.where($ > 1).select($ * 2)', '$.items.orderBy(-$)',
    '$.d.set(k, 9)', '$.d + {z => 1}', '$.items + [7]', '$.items.insert(0, 7)',
    '$.items.reverse()', '$.d.keys().orderBy($)', '$.items.toSet().add(9)',
    'let(x => $.items) -> $x.delete(0)', '$hostList.insert(0, 7)',
    '$hostDict.set(q, 1)', '$hostList[1].append(9)', '$.items.len() + hostFn(1)',
    'def(f, $ + 1) -> $.items.select(f($))', '$.d.mergeWith({k => [9]})',
    '$.items.groupBy($ mod 2)', '[$.items, $.d].select($)',
    '$.items.replace(0, 5)', '$hostSet.union($.items.toSet())',
    '$.nested.a.b', '$.nested.a.set(b, 0)', '$.items.memorize().len()',
    '$.items.distinct().orderBy($)', 'dict($.items.select([$, $]))',
    '$', '$1', '[$, 1]', 'coalesce($, none)',
    # the two aggregator conventions of groupBy, in one history
    '$.items.groupBy($ mod 2, $, [$[0], $[1].sum()])',
    '$.items.groupBy($ mod 2, $, $.sum())',
    '$.items.groupBy($ mod 2, $ * 2, $.len())',
    # helpers defined in yaql, called with different numbers of arguments
    'total(1)', 'total(1, 10)', 'total($.items.len())', 'scale(2)',
    'scale(2, factor => 5)', '[total(2), total(2, 3), total(2)]',
    # host extension with a scratch variable; $scratch is unknown outside
    'hostScratch(4)', '[hostScratch($.items.len()), $scratch]', '$scratch',
    # answers that depend on the context the evaluation is given: a variable
    # read by a helper / a host extension, overridden variable reads, a
    # function defined from the data and called with literals only
    'hostScaled(10)', '[$.items.len(), $secret]', '$secret',
    'let(k => $.items.len()) -> def(sc, $ * $k) -> sc(10)',
    '[scale(2), hostScaled(2), $factor]',
]
DOCS = [
    {'items': [3, 1, 2], 'd': {'k': [1], 'j': 2}, 'nested': {'a': {'b': [1]}}},
    {'items': [], 'd': {}, 'nested': {'a': {'b': None}}},
    {'items': [2, 2, 5, 1], 'd': {'k': [5, 6]}, 'nested': {'a': {'b': 3}}},
]


def bare_library():
    """a context assembled by hand from the library modules, without the
    finalizer that yaql.create_context() installs"""
    from yaql.language import conventions
    from yaql.standard_library import (boolean, collections as coll, common
                                       as comm, math, queries, strings,
                                       system)
    ctx = contexts.Context(convention=conventions.CamelCaseConvention())
    system.register_fallbacks(ctx)
    ctx = ctx.create_child_context()
    system.register(ctx)
    for m in (comm, boolean, strings, math):
        m.register(ctx)
    coll.register(ctx)
    queries.register(ctx)
    return ctx


_PRISTINE = {}
UNSTABLE = ('now(', 'random(')


def _pristine_outcome(text, convert_input, di, variant=0):
    """the statement parsed anew and evaluated with the document under a
    library and host chain nothing was ever evaluated under"""
    if any(u in text for u in UNSTABLE):
        return None
    key = (text, convert_input, di, variant)
    if key not in _PRISTINE:
        import yaql as _yaql
        host, _ = make_host_chain(_yaql.create_context())
        try:
            _PRISTINE[key] = ('ok', common.snapshot(
                _engine(convert_input)(text).evaluate(
                    data=mutable(DOCS[di]),
                    context=prepare_variant(
                        host, variant).create_child_context())))
        except Exception as e:   # noqa
            _PRISTINE[key] = ('exc', type(e).__name__)
    return _PRISTINE[key]


def run_history(run, case):
    """case: {kind: history, steps: [[stmt index, doc index, raw?], ...]}"""
    bare = case.get('bare', False)
    # a library context of the history's own: whatever an evaluation leaves
    # in the library's definitions starts from nothing in every history
    import yaql as _yaql0
    lib = bare_library() if bare else _yaql0.create_context()
    host, _ = make_host_chain(lib)
    if SETUP_RESIDUE:
        run.case(case, False, cls=['history'])
        run.violate('supplied-context-changed', case,
                    'def(total, ..) left %s in the context passed to '
                    'evaluate() while the host prepared its chain' %
                    SETUP_RESIDUE[0], input_class='def(total, ..)')
        return
    engs = {True: _engine(True), False: _engine(False)}
    parsed = {}
    seen = {}
    host_before = ctx_snapshot(host)
    reuse = 0
    bad = None
    for step in case['steps']:
        si, di, raw = step[:3]
        ctxmode = step[3] if len(step) > 3 else 0
        variant = step[4] % VARIANTS if len(step) > 4 else 0
        if ctxmode:
            # evaluation without a context of the host's (yaql builds its
            # own), with data (1) or without (2): compare with the same
            # statement evaluated in an explicitly fresh context
            import yaql as _yaql
            text = POOL[si % len(POOL)]
            key = (si % len(POOL), bool(raw))
            if key not in parsed:
                parsed[key] = engs[not raw](text)
            kw = {} if ctxmode == 2 else {
                'data': mutable(DOCS[di % len(DOCS)])}
            kw2 = {} if ctxmode == 2 else {
                'data': mutable(DOCS[di % len(DOCS)])}

            def _ev(**k):
                try:
                    return ('ok', common.snapshot(parsed[key].evaluate(**k)))
                except Exception as e:   # noqa
                    return ('exc', type(e).__name__)
            got = _ev(**kw)
            exp = _ev(context=_yaql.create_context(), **kw2)
            if got != exp:
                bad = ('context-less-evaluation-depends-on-history',
                       '%s evaluated without a context (%s data): %r; in a '
                       'fresh context: %r' % (
                           text, 'without' if ctxmode == 2 else 'with',
                           got, exp), text)
                break
            continue
        text = POOL[si % len(POOL)]
        key = (si % len(POOL), bool(raw))
        if key not in parsed:
            parsed[key] = engs[not raw](text)
        else:
            reuse += 1
        data = mutable(DOCS[di % len(DOCS)])
        before = common.snapshot(data)
        ectx = prepare_variant(host, variant).create_child_context()
        try:
            out = ('ok', common.snapshot(parsed[key].evaluate(
                data=data, context=ectx)))
        except Exception as e:   # noqa
            out = ('exc', type(e).__name__)
        leak = supplied_context_residue(ectx)
        if leak:
            bad = ('supplied-context-changed',
                   '%s left %s in the context passed to evaluate()' % (
                       text, leak), text)
            break
        if common.snapshot(data) != before:
            bad = ('host-data-mutated', '%s mutated its input %r' % (
                text, before), text)
            break
        if ctx_snapshot(host) != host_before:
            bad = ('shared-parent-context-changed',
                   '%s changed the shared parent context' % text, text)
            break
        k2 = (key, di % len(DOCS), variant)
        if bare:
            continue     # results are not finalised there (lazy objects)
        exp = _pristine_outcome(text, not raw, di % len(DOCS), variant)
        if exp is not None and out != exp:
            bad = ('evaluation-depends-on-history',
                   '%s with document %d after %d earlier evaluations under '
                   'the same prepared context: %r; in a context nothing was '
                   'evaluated under before: %r' % (
                       text, di % len(DOCS), len(seen), out, exp), text)
            break
        if k2 in seen and seen[k2] != out:
            bad = ('re-evaluation-differs',
                   '%s with document %d: first %r, now %r' % (
                       text, di % len(DOCS), seen[k2], out), text)
            break
        seen[k2] = out
    run.case(case, reuse >= 1, cls=['history', 'steps=%d' % min(
        len(case['steps']), 15)] + (['hand-built-library'] if bare else []))
    if bad:
        run.violate(bad[0], case, bad[1], input_class=bad[2])


REPLAY = {'sweep': check_sweep, 'history': run_history,
          'rawout': check_rawout, 'hostcoll': check_hostcoll,
          'eval-history': check_eval_history, 'lineage': check_lineage}


def make_machine(run):
    class Machine(RuleBasedStateMachine):
        def __init__(self):
            super().__init__()
            self.steps = []

        @rule(si=st.integers(0, len(POOL) - 1),
              di=st.integers(0, len(DOCS) - 1), raw=st.booleans(),
              variant=st.sampled_from([0, 0, 0, 1, 2, 3]))
        def evaluate(self, si, di, raw, variant):
            self.steps.append([si, di, raw, 0, variant])

        @rule(variant=st.integers(0, VARIANTS - 1))
        def repeat_last_in_another_context(self, variant):
            if self.steps and not self.steps[-1][3:4] in ([1], [2]):
                last = list(self.steps[-1][:3])
                self.steps.append(last + [0, variant])

        @rule(si=st.sampled_from([i for i, t in enumerate(POOL)
                                  if 'host' not in t]),
              di=st.integers(0, len(DOCS) - 1), mode=st.integers(1, 2))
        def evaluate_without_context(self, si, di, mode):
            self.steps.append([si, di, False, mode])

        @rule()
        def repeat_last(self):
            if self.steps:
                self.steps.append(list(self.steps[-1]))

        @initialize(bare=st.sampled_from([False, False, False, True]))
        def choose_library(self, bare):
            # (one history in four runs under a library assembled by hand)
            self.bare = bare

        def teardown(self):
            if self.steps:
                run_history(run, {'kind': 'history',
                                  'steps': list(self.steps),
                                  'bare': getattr(self, 'bare', False)})
    return Machine


def _sweep_shard(run, part, parts, fills):
    jobs = []
    for d in W.definitions():
        for f in range(fills):
            for mode in ('data', 'data-raw', 'vars', 'data-rawout'):
                jobs.append({'kind': 'sweep', 'def': d.id, 'fill': f,
                             'mode': mode})
    for c in jobs[part::parts]:
        check_sweep(run, c)


def _machine_shard(run, n, steps, shard):
    run.machine('histories', make_machine(run), n, steps, shard=shard)


def _variant_pairs_shard(run, part, parts, docs):
    # every statement of the pool evaluated twice through one parsed object
    # under one prepared chain, the two evaluations in every ordered pair of
    # the contexts a host prepares
    jobs = [(si, di, v1, v2) for si in range(len(POOL)) for di in docs
            for v1 in range(VARIANTS) for v2 in range(VARIANTS)]
    for si, di, v1, v2 in jobs[part::parts]:
        run_history(run, {'kind': 'history', 'steps': [
            [si, di, False, 0, v1], [si, di, False, 0, v2]]})


def run(run):
    full = run.tier == 'thorough'
    common.std_context(delegates=True)
    W.definitions()
    for i in range(len(RAW_PROBES)):
        for top in ('dict', 'tuple'):
            check_rawout(run, {'kind': 'rawout', 'probe': i, 'top': top})
    for t in sorted(_host_collections()):
        for i in range(len(HOSTCOLL_TEXTS)):
            for via in ('variable', 'raw-data'):
                check_hostcoll(run, {'kind': 'hostcoll', 'type': t,
                                     'text': i, 'via': via})
    import itertools
    for ti in range(len(LINEAGE_TEXTS)):
        for order in itertools.permutations(
                ['default', 'copy-raw', 'percall-raw', 'copy-default'], 2):
            check_lineage(run, {'kind': 'lineage', 'text': ti,
                                'order': list(order) + ['default']})
    steps = st.lists(st.tuples(st.sampled_from(['eval', 'eval', 'mutate']),
                               st.integers(0, 7)).map(list), min_size=2,
                     max_size=8)
    run.hyp('yaql.eval-histories', st.builds(
        lambda s_, v: {'kind': 'eval-history', 'steps': s_, 'view': v},
        steps, st.booleans()), lambda c: check_eval_history(run, c),
        200 if full else 40)
    run.shards(_sweep_shard, [(i, 16, 6 if full else 2) for i in range(16)],
               watchdog=120)
    run.shards(_variant_pairs_shard, [
        (i, 16, range(len(DOCS)) if full else [run.seed % len(DOCS)])
        for i in range(16)])
    k = 8
    run.shards(_machine_shard, [((5000 if full else 320) // k,
                                 40 if full else 15, i) for i in range(k)])

"""C03 - parsing is total: a Statement or a YAQL parsing error, nothing else.

Generators: exhaustive short token sequences over the engine's own token
alphabet, token soups, single-character mutations of valid expressions, the
backslash-escape grid in the three quote styles, long numerals/identifiers,
arbitrary unicode text.  Oracle: validity predicate on the outcome.
"""
import itertools

from hypothesis import strategies as st

from vf import common, lexhook
from vf.common import HarnessAbort
from yaql.language import exceptions as yexc
from yaql.language import expressions
from yaql.language import factory as yfactory

RULE = ('texts generated from (a) all sequences of <=3 tokens over the '
        'token alphabet of each engine, joined with and without blanks, (b) '
        'token soups, (c) one-character mutations of valid expressions, (d) '
        'the backslash-escape grid in 3 quote styles, (e) long numerals and '
        'identifiers (also as the token the grammar rejects), (f) arbitrary '
        'unicode text, (g) every stock operator with literal operands that '
        'mean something to some interpreter of strings (regular expressions, '
        'templates, numerals) and every combining mark as first character, '
        '(h) the two-argument parse form with host options of any type; '
        'non-trivial = raises a '
        'parsing exception, or has >=2 tokens and parses; distinct = distinct '
        '(engine, text)')
ASSUMPTIONS = [
    'a single parse that runs for more than 30 s of wall clock (the slowest '
    'case on the unchanged tree takes well under 0.1 s) is killed by a '
    'watchdog and reported as non-termination',
    'termination is checked by a token-fetch budget of 4*len(text)+16, not '
    'by wall clock',
    'nesting depth beyond a few thousand levels is not explored',
]

OT = yfactory.OperatorType
CUSTOM1 = (('+', True, '**', OT.BINARY_RIGHT_ASSOCIATIVE, True),
           ('and', True, 'xor', OT.BINARY_LEFT_ASSOCIATIVE, False),
           ('not', False, '!', OT.PREFIX_UNARY, False))
CUSTOM2 = ((None, None, '!', OT.SUFFIX_UNARY, True),
           ('*', True, '//', OT.BINARY_LEFT_ASSOCIATIVE, False, 'idiv'),
           ('->', True, '|', OT.BINARY_LEFT_ASSOCIATIVE, True))
ENGINES = {
    'default': dict(kind='default'),
    'legacy': dict(kind='legacy'),
    'delegates': dict(kind='default', allow_delegates=True),
    'custom1': dict(kind='default', inserts=CUSTOM1),
    'custom2': dict(kind='default', inserts=CUSTOM2),
    'percall': dict(kind='default'),
}


class _PerCall:
    """the two-argument parse form: engine(text, options), with host options
    of the kinds the documentation allows (any values, not only yaql's own
    scalars)"""
    OPTIONS = {'yaql.limitIterators': 50, 'host.environment': {
        'region': 'eu', 'tags': ['a', 'b']}, 'host.list': [1, [2]],
        'host.set': {1, 2}}

    def __init__(self, eng):
        self._eng = eng

    def __call__(self, text):
        return self._eng(text, dict(self.OPTIONS))

    def __getattr__(self, name):
        return getattr(self._eng, name)


_PERCALL = {}


def get_engine(name):
    if name == 'percall':
        if 'e' not in _PERCALL:
            _PERCALL['e'] = _PerCall(common.engine(kind='default'))
        return _PERCALL['e']
    return common.engine(**ENGINES[name])


def alphabet(name):
    e = get_engine(name)
    ops = []
    for rec in e.factory.operators:
        if len(rec) >= 2 and rec[0] not in ('[]', '{}') and rec[0] not in ops:
            ops.append(rec[0])
    base = ['(', ')', ']', ',', '}', '[', '{',
            '1', '23', '1.5', "'s'", '"d"', '`v`', 'kw', 'f(', '$', '$x',
            'true', 'false', 'null', '?', '#', '__x', "'", '\\']
    return ops + base


# --------------------------------------------------------------------------

class _Budget:
    def __init__(self, limit):
        self.limit = limit
        self.n = 0

    def __call__(self, lexer):
        self.n += 1
        if self.n > self.limit:
            raise HarnessAbort('token fetch budget exceeded')


def check_parse(run, case):
    """case: {kind: parse, engine, text}"""
    text = common.dec(case['text'])
    name = case['engine']
    eng = get_engine(name)
    run.guard(case)
    lexhook.install()
    budget = _Budget(4 * len(text) + 16)
    lexhook.set_hook(budget)
    try:
        try:
            res = eng(text)
            out = 'ok'
        except yexc.YaqlParsingException as e:
            res = e
            out = type(e).__name__
        except HarnessAbort as e:
            run.case(case, True, cls='abort')
            run.violate('non-termination', case,
                        'parser fetched more than %d tokens for a text of '
                        'length %d' % (budget.limit, len(text)))
            return
        except RecursionError as e:
            run.case(case, True, cls='other-exception')
            run.violate('other-exception-escapes', case, exc=e,
                        input_class=classify_text(text))
            return
        except Exception as e:
            run.case(case, True, cls='other-exception')
            run.violate('other-exception-escapes', case, exc=e,
                        input_class=classify_text(text))
            return
    finally:
        lexhook.clear_hook()
    if out == 'ok':
        nt = budget.n > 2
        run.case(case, nt, fp=(name, case['text']), cls='ok')
        if not isinstance(res, expressions.Statement):
            run.violate('returns-non-statement', case,
                        'returned %r' % type(res).__name__)
        return
    pos = res.position
    cls = out + ('-eof' if pos is None else '')
    run.case(case, True, fp=(name, case['text']), cls=cls)
    if pos is not None:
        if not isinstance(pos, int) or not (0 <= pos < len(text)):
            run.violate('position-outside-text', case,
                        'position %r for text of length %d (%s)' % (
                            pos, len(text), out))
        elif isinstance(res, yexc.YaqlLexicalException):
            if text[pos] != res.value:
                run.violate('lexical-position-not-at-char', case,
                            'text[%d]=%r but reported char %r' % (
                                pos, text[pos], res.value))
    elif isinstance(res, yexc.YaqlLexicalException):
        run.violate('lexical-error-without-position', case, '')


def classify_text(text):
    """Structural class of an input, used in signatures."""
    if '\\' in text and any(q in text for q in '\'"`'):
        for tag, marks in (('escape-N', '\\N'), ('escape-x', '\\x'),
                           ('escape-u', '\\u'), ('escape-U', '\\U')):
            if marks in text:
                return tag
        return 'escape-other'
    digits = max((len(list(g)) for k, g in itertools.groupby(
        text, key=lambda c: c.isdigit()) if k), default=0)
    if digits > 4000:
        return 'numeral>4000digits'
    if len(text) > 1500:
        return 'long-text'
    return 'text'


REPLAY = {'parse': check_parse}


# --------------------------------------------------------------------------
# enumeration (sharded)

def _enum_shard(run, name, length, first_tokens):
    alpha = alphabet(name)
    for first in first_tokens:
        for rest in itertools.product(alpha, repeat=length - 1):
            toks = (first,) + rest
            for joiner in ('', ' '):
                check_parse(run, {'kind': 'parse', 'engine': name,
                                  'text': joiner.join(toks)})


VALID = [
    '1 + 2 * 3', '$.a.b[0]', "$.where($.x > 1).select($.y)",
    "[1, 2, 3].len()", "{a => 1, 'b' => [2]}", "f(1, , 3, k => v)",
    "not true and false or null", "-$x.y + +3", "'it\\'s' + \"q\\\"\" + `v`",
    "let(x => 1) -> $x + 1", "$a?.b?.c", "x in [1,2] and 3 >= 2",
    "a.b(c).d(e, f => g)", "1.5 * (2 - 3) / 4 mod 5", "$[1][2]{a => b}",
    "'\\u0041\\x42\\103\\n'", "$ =~ 'a.*' and $ !~ 'b'", "f(g(h(1)))",
]


def _mutations(alpha_chars):
    chars = st.one_of(st.sampled_from(sorted(alpha_chars)),
                      st.characters())

    @st.composite
    def strat(draw):
        name = draw(st.sampled_from(list(ENGINES)))
        base = draw(st.sampled_from(VALID))
        n = draw(st.integers(1, 3))
        s = base
        for _ in range(n):
            if not s:
                break
            op = draw(st.sampled_from('ids'))
            pos = draw(st.integers(0, len(s)))
            if op == 'i':
                s = s[:pos] + draw(chars) + s[pos:]
            elif op == 'd':
                s = s[:pos] + s[pos + 1:]
            else:
                s = s[:pos] + draw(chars) + s[pos + 1:]
        return {'kind': 'parse', 'engine': name, 'text': common.enc(s)}
    return strat()


def _soups():
    @st.composite
    def strat(draw):
        name = draw(st.sampled_from(list(ENGINES)))
        alpha = alphabet(name)
        toks = draw(st.lists(st.sampled_from(alpha), min_size=4, max_size=40))
        joiners = draw(st.lists(st.sampled_from(['', ' ', '\t', '\n', '\r']),
                                min_size=len(toks), max_size=len(toks)))
        return {'kind': 'parse', 'engine': name,
                'text': ''.join(t + j for t, j in zip(toks, joiners))}
    return strat()


def escape_grid(full):
    """All backslash shapes inside the three quote styles."""
    out = []
    tails = []
    for c in map(chr, range(32, 127)):
        tails.append(c)
    tails += ['\n', '\t', '\x00', 'é', ' ', '\U0001d4b3']
    hexish = ['', '0', '4', '41', 'g', 'zz', '4g', '00e9', '00E', '12', 'd800',
              'DFFF', 'ffff', '0001d4b3', '00110000', 'FFFFFFFF', '0010FFFF',
              '0000004', 'éé', '１２', '+1', ' 1', '-1',
              # lone surrogates (Python strings can hold them) among the
              # characters the escape takes
              '\ud800', '4\ud800', '\udfff041', '00\ud800\udc00',
              '0001\ud800b3']
    for p in 'xuU':
        for h in hexish:
            tails.append(p + h)
            tails.append(p + h + 'Z')
    for o in ['0', '7', '8', '9', '12', '123', '1234', '377', '400', '777',
              '78', '08']:
        tails.append(o)
    for n in ['N{LATIN SMALL LETTER A}', 'N{foo}', 'N{}', 'N{', 'N', 'N}',
              'N{DIGIT ONE', 'N{latin small letter a}', 'N{BELL}',
              'N{é}', 'N{LATIN SMALL LETTER A}}', 'N{{}']:
        tails.append(n)
    bodies = []
    for t in tails:
        bodies.append('\\' + t)
        bodies.append('a\\' + t + 'b')
        # characters of every UTF-8 / UTF-16 width before the escape, so
        # that a position computed on some encoded form shows up
        bodies.append('\u65e5\u672c\u8a9e\\' + t)
        bodies.append('\u20ac \U0001f600\u00e9\\' + t + '\u00fc')
        if full:
            bodies.append('\\\\' + t)
            bodies.append('\\' + t + '\\')
    bodies += ['\\', 'a\\', '\\\\', '\\\\\\']
    for b in bodies:
        for q in '\'"`':
            out.append(q + b + q)
            if full:
                out.append('f(' + q + b + q + ')')
    return out


def long_inputs(full):
    out = []
    sizes = [50, 640, 4299, 4300, 4301, 5000, 6000]
    if full:
        sizes += [100, 1000, 2000, 4000, 4298, 4302, 10000, 20000]
    for n in sizes:
        out.append('9' * n)
        out.append('1' + '0' * (n - 1))
        out.append('0' * n)
        out.append('9' * n + '.5')
        out.append('1.' + '3' * n)
        out.append('9' * n + '.' + '7' * n)
        out.append('١' * n)            # arabic-indic digits
        out.append('-' + '9' * n)
        out.append('$' + '9' * n)
        out.append('$0' + '9' * n + ' + $' + '1' * n)
        out.append('[' + '9' * n + ']')
        out.append('f(' + '9' * n + ')')
        # the long numeral as the token the grammar rejects (error messages
        # quote the offending token)
        out.append('1 ' + '9' * n)
        out.append('f(1 ' + '9' * n + ')')
        out.append('$.a ' + '9' * n)
        out.append('9' * n + ' ' + '8' * n)
        out.append("'s' " + '9' * n + '.5')
        out.append('9' * n + ' x')
        out.append(') ' + '9' * n)
    for n in [100, 1000, 10000]:
        out.append('a' * n)
        out.append('_' + 'a' * n)
        out.append('$' + 'a' * n)
        out.append('a' * n + '(')
        out.append('a' * n + '(1)')
        out.append("'" + 'a' * n + "'")
        out.append("'" + 'a' * n)
        out.append('é' * n)
    for n in [10, 200, 2000]:
        out.append('(' * n + '1' + ')' * n)
        out.append('[' * n + '1' + ']' * n)
        out.append('(' * n)
        out.append('-' * n + '1')
        out.append('not ' * n + 'true')
        out.append('1' + '+1' * n)
        out.append('$' + '.a' * n)
        out.append('f(' * n + ')' * n)
        out.append('1' + '[0]' * n)
    return out


def operand_grid(full):
    """every operator symbol of the stock tables with literal operands that
    mean something to *some* interpreter of strings (regular expressions,
    format templates, numerals, names): whatever a grammar action does with a
    constant operand, the outcome is a statement or a YAQL parsing error;
    plus every combining mark as the first character of a text"""
    import unicodedata
    ops = ['=~', '!~', '+', '-', '*', '/', 'mod', '>', '<', '>=', '<=', '=',
           '!=', 'in', 'and', 'or', '->', '.', '?.', '=>']
    lits = ["'('", "'[a-z'", "'*.txt'", "'a{2,1}'", "'\\\\'", "'(?P<x'",
            "''", "' '", "'%s %(x)s'", "'{0.a}'", "'\\d+)'", 'x', '(', '0',
            "'1e999'", "'\\N{DIGIT ONE}'", '"(?i"', '`[`', "'\u0301'",
            '999999999999999999999', '1.', "'a' 'b'"]
    out = []
    for op in ops:
        for lit in lits:
            out.append('$ %s %s' % (op, lit))
            out.append('$.a %s %s +' % (op, lit))
            if full:
                out.append('%s %s $' % (lit, op))
                out.append('f(%s %s %s)' % (lit, op, lit))
    marks = [chr(c) for c in range(0x300, 0x3100)
             if unicodedata.combining(chr(c))]
    marks += ['\ufe20', '\U0001d165', '\u20e3', '\u200d', '\ufeff']
    for m in (marks if full else marks[::3] + marks[:48]):
        out += [m, m + 'abc', m + ' + 1', 'a' + m, '$.' + m, m + m]
    # every character that some notion of "digit" or "number" covers
    # (decimal digits of all scripts, superscripts, circled digits,
    # fractions, ideographic numerals): str.isdigit() / isnumeric() /
    # int() / float() / the regex classes disagree about them
    import sys
    nums = [chr(c) for c in range(0x80, sys.maxunicode + 1)
            if chr(c).isnumeric() or chr(c).isdigit()]
    for ch in (nums if full else nums[::3] + nums[:40]):
        out += ['$' + ch, '$1' + ch, ch, '1' + ch, ch + '.5', '1.' + ch,
                'f' + ch + '(1)', '$.a' + ch, '[' + ch + ch + ']']
    return out


WATCHDOG = 30


def _list_shard(run, which, full, names, part, parts):
    texts = escape_grid(full) if which == 'escapes' else operand_grid(
        full) if which == 'operands' else long_inputs(full)
    for text in texts[part::parts]:
        for name in names:
            check_parse(run, {'kind': 'parse', 'engine': name,
                              'text': common.enc(text)})


def _hyp_shard(run, which, n, shard):
    engines = list(ENGINES)
    if which == 'soups':
        strat = _soups()
    elif which == 'mutations':
        alpha_chars = set(''.join(alphabet('custom1') + alphabet('custom2')))
        strat = _mutations(alpha_chars)
    else:
        strat = st.builds(
            lambda name, t: {'kind': 'parse', 'engine': name,
                             'text': common.enc(t)},
            st.sampled_from(engines), st.text(st.characters(), max_size=30))
    run.hyp(which, strat, lambda c: check_parse(run, c), n, shard=shard)


def run(run):
    full = run.tier == 'thorough'
    engines = list(ENGINES)
    for name in engines:
        get_engine(name)        # build once, inherited by the forked shards
    # (a) exhaustive token sequences
    jobs = []
    for name in engines:
        alpha = alphabet(name)
        jobs.append((name, 1, alpha))
        jobs.append((name, 2, alpha))
        if full or name == 'default':
            # chunk by first token for load balancing
            for i in range(0, len(alpha), 4):
                jobs.append((name, 3, alpha[i:i + 4]))
    run.shards(_enum_shard, jobs, watchdog=WATCHDOG)
    run.extra['exhaustive_subspace'] = (
        'all token sequences of length <=%s over the per-engine token '
        'alphabet (%s), with and without blanks' % (
            '3 for every engine' if full else
            '3 for the default engine, <=2 for the others',
            ', '.join('%s:%d tokens' % (n, len(alphabet(n)))
                      for n in engines)))
    # (d) escape grid and (e) long inputs
    jobs = [('escapes', full, engines if full else ['default', 'legacy'],
             i, 8) for i in range(8)]
    jobs += [('long', full, engines if full else ['default'], i, 8)
             for i in range(8)]
    jobs += [('operands', full, engines if full else ['default', 'legacy',
                                                       'delegates'], i, 8)
             for i in range(8)]
    run.shards(_list_shard, jobs, watchdog=WATCHDOG)
    # (b) soups, (c) mutations, (f) arbitrary text
    k = 8 if full else 4
    n = 40000 if full else 2500
    jobs = [(w, (n if w != 'text' else n // 2) // k, i)
            for w in ('soups', 'mutations', 'text') for i in range(k)]
    run.shards(_hyp_shard, jobs, watchdog=WATCHDOG)

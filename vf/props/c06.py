"""C06 - resolution does not depend on registration or iteration order.

Metamorphic: one (family, call) evaluated under every permutation of each
layer's enumeration order (OrderedContext) and of the registration order must
give one outcome (payload tag + received arguments, or exception class).
"""
import itertools
import json
import os
import subprocess
import sys

from hypothesis import strategies as st

from vf import common, resfam

RULE = ('overload families biased to >=2 simultaneously matching candidates '
        'in one layer (identical signatures, chains C<B<A, one definition '
        'more specific than two mutually incomparable ones, mixed no_kwargs, '
        'mixed laziness) called with lattice instances; every permutation of '
        'every layer (<=4 candidates/layer, else 24 sampled) plus permuted '
        'registration order in plain Contexts; registrations interleaved '
        'with calls through a long-lived child context; the nearest layer '
        'spread '
        'over 2 and 3 member contexts of a MultiContext in every member '
        'order; members built from assembled definitions, declared Python '
        'signatures or one shared callable typed per registration; '
        'non-trivial = >=2 candidates '
        'match in the winning layer and >=2 distinct permutations were run; '
        'distinct = distinct (family, call)')
ASSUMPTIONS = [
    'enumeration order is controlled through a Context subclass whose '
    'get_functions returns a list (the runner only iterates it)',
    'the cross-process tier (different PYTHONHASHSEED, unmodified Context) '
    'runs in the thorough tier only',
]


def _engine():
    return common.engine()


def _jd(o):
    from yaql.language import utils as yutils
    if isinstance(o, yutils.MappingRule):
        return ['=>', o.source, o.destination]
    if isinstance(o, resfam.A):
        return repr(o)
    return '<%s>' % type(o).__name__


def outcome(family, call, orders=None, ordered=True, reg_order=None):
    resfam.fresh_types()
    base = common.std_context()
    ctx, defs = resfam.build_chain(family, base, orders, ordered, reg_order)
    text, binds = resfam.render_call(call)
    c = ctx.create_child_context()
    for k, v in binds.items():
        c['$' + k] = v
    try:
        r = _engine()(text).evaluate(context=c)
        return ['ok', json.loads(json.dumps(r, default=_jd))]
    except Exception as e:   # noqa
        return ['exc', type(e).__name__]


def outcome_multi(family, call, split, perm):
    """the nearest layer is a MultiContext whose member contexts hold the
    layer's overloads between them (split: member index per overload of
    layer 0, perm: order of the members); the merged layer is the same set
    of overloads whatever the split and the order"""
    from yaql.language import contexts
    resfam.fresh_types()
    base = common.std_context()
    deeper = [dict(d, layer=d['layer'] - 1) for d in family['defs']
              if d['layer'] >= 1]
    low = base
    if deeper:
        low, _ = resfam.build_chain(
            dict(family, layers=family.get('layers', 1) - 1, defs=deeper),
            base, ordered=False)
    near = [d for d in family['defs'] if d['layer'] == 0]
    members = []
    for m in sorted(set(split)):
        sub = [d for d, k in zip(near, split) if k == m]
        ctx, _ = resfam.build_chain(dict(family, layers=1, defs=sub), low,
                                    ordered=False)
        members.append(ctx)
    multi = contexts.MultiContext([members[i] for i in perm])
    text, binds = resfam.render_call(call)
    c = multi.create_child_context()
    for k, v in binds.items():
        c['$' + k] = v
    try:
        r = _engine()(text).evaluate(context=c)
        return ['ok', json.loads(json.dumps(r, default=_jd))]
    except Exception as e:   # noqa
        return ['exc', type(e).__name__]


def outcome_incremental(family, call, reg_order):
    """a long-lived session context (child of the chain) exists before the
    overloads are registered; they are registered one by one, and the call
    is resolved through the session after each registration; the last
    outcome must be the one of the completed family"""
    from yaql.language import contexts
    resfam.fresh_types()
    base = common.std_context()
    n = family.get('layers', 1)
    by_layer = {}
    parent = base
    for layer in reversed(range(n)):
        parent = contexts.Context(parent)
        by_layer[layer] = parent
    session = parent.create_child_context().create_child_context()
    text, binds = resfam.render_call(call)
    for k, v in binds.items():
        session['$' + k] = v
    out = None
    shared = {}
    for i in reg_order:
        d = family['defs'][i]
        fd = None
        if family.get('decl') in ('signature', 'signature-reregistered'):
            fd = resfam.build_def_declared(d)
        elif family.get('decl') in ('shared-callable', 'shared-payload',
                                    'shared-callable-flags'):
            fd = resfam.build_def_shared(
                d, shared, tagged=family['decl'] != 'shared-payload',
                flags=family['decl'] == 'shared-callable-flags')
        if fd is None:
            fd = resfam.build_def(d)
        by_layer[d['layer']].register_function(
            fd, exclusive=d.get('exclusive', False))
        try:
            r = _engine()(text).evaluate(
                context=session.create_child_context())
            out = ['ok', json.loads(json.dumps(r, default=_jd))]
        except Exception as e:   # noqa
            out = ['exc', type(e).__name__]
    return out


def matches_per_layer(family, call):
    """how many definitions of each layer accept the call on their own"""
    out = {}
    for d in family['defs']:
        solo = {'layers': 1, 'defs': [dict(d, layer=0, exclusive=False)]}
        o = outcome(solo, call)
        if o[0] == 'ok':
            out[d['layer']] = out.get(d['layer'], 0) + 1
    return out


def layer_orders(family, limit, pick=None):
    per_layer = {}
    for d in family['defs']:
        per_layer.setdefault(d['layer'], []).append(d['tag'])
    layers = sorted(per_layer)
    perms = []
    for l in layers:
        tags = per_layer[l]
        if len(tags) <= 4:
            perms.append(list(itertools.permutations(tags)))
        else:
            ps = list(itertools.islice(itertools.permutations(tags), 0, None,
                                       max(1, _fact(len(tags)) // 24)))[:24]
            perms.append(ps)
    combos = itertools.product(*perms)
    out = []
    for combo in combos:
        out.append({l: list(p) for l, p in zip(layers, combo)})
        if len(out) >= limit:
            break
    return out


def _fact(n):
    r = 1
    for i in range(2, n + 1):
        r *= i
    return r


def check_family(run, case):
    family, call = case['family'], case['call']
    orders = layer_orders(family, 48)
    results = []
    for o in orders:
        results.append((o, outcome(family, call, o)))
    # registration order with the unmodified Context class
    n = len(family['defs'])
    regs = [list(range(n)), list(reversed(range(n)))]
    if n > 2:
        regs.append(list(range(1, n)) + [0])
    for r in regs:
        results.append(({'registration': r},
                        outcome(family, call, None, False, r)))
    # registrations interleaved with calls through a long-lived session
    for r in regs[:2]:
        results.append(({'registered one by one, call after each': r},
                        outcome_incremental(family, call, r)))
    # the nearest layer spread over the members of a MultiContext
    near = [d for d in family['defs'] if d['layer'] == 0]
    if len(near) >= 2:
        for nm in (2, 3):
            if nm > len(near):
                continue
            split = [(i + case.get('split', 0)) % nm
                     for i in range(len(near))]
            for perm in itertools.permutations(range(nm)):
                results.append(({'multi-context members': list(perm),
                                 'split': split},
                                outcome_multi(family, call, split, perm)))
    m = matches_per_layer(family, call)
    multi = any(v >= 2 for v in m.values())
    shape = 'defs=%d' % n
    cls = ['family', shape]
    if multi:
        cls.append('>=2-matches-in-a-layer')
    if case.get('shape'):
        cls.append('shape=' + case['shape'])
    run.case(case, multi and len(results) >= 2, cls=cls)
    first = results[0][1]
    for o, r in results[1:]:
        if r != first:
            kinds = sorted({json.dumps(x[1][1]) if x[1][0] == 'exc'
                            else 'ok' for x in results})
            run.violate(
                'outcome-depends-on-order', case,
                'order %r -> %r but order %r -> %r' % (
                    results[0][0], first, o, r),
                input_class='+'.join(kinds).replace('"', ''))
            return


REPLAY = {'family': check_family}


# --------------------------------------------------------------------------
# generators (by construction: derive candidates from a top signature)

inst = st.sampled_from(['a', 'b', 'c', 'd'])
TYPE_OF = {'a': 'A', 'b': 'B', 'c': 'C', 'd': 'D'}


@st.composite
def biased_family(draw):
    k = draw(st.integers(1, 3))
    args = [draw(inst) for _ in range(k)]
    top = [TYPE_OF[a] for a in args]
    shape = draw(st.sampled_from(['widen', 'widen', 'widen', 'incomparable',
                                  'identical', 'chain', 'mixed-nokw',
                                  'mixed-lazy', 'zero-arg-tie',
                                  'partial-order', 'value-validated',
                                  'inferred-from-defaults']))
    layers = draw(st.integers(1, 2))
    defs = []
    argvals = [{'o': a} for a in args]

    def mk(types, layer=0, **extra):
        d = {'tag': 't%d' % len(defs), 'layer': layer, 'kind': 'function',
             'params': [{'name': 'p%d' % i, 'type': t, 'nullable': False}
                        for i, t in enumerate(types)]}
        d.update(extra)
        defs.append(d)
        return d
    if shape == 'zero-arg-tie':
        # several overloads that all accept f(): parameterless, defaulted,
        # hidden-only, *args-only
        args = []
        top = []
        k = 0
        for _ in range(draw(st.integers(2, 4))):
            kind = draw(st.sampled_from(['none', 'default', 'hidden',
                                         'varargs']))
            d = {'tag': 't%d' % len(defs), 'layer': 0, 'kind': 'function',
                 'params': []}
            if kind == 'default':
                d['params'] = [{'name': 'p0', 'type': 'obj',
                                'nullable': True, 'default': 1}]
            elif kind == 'hidden':
                d['params'] = [{'name': 'h', 'type': 'obj', 'hidden': True}]
            elif kind == 'varargs':
                d['varargs'] = 'obj'
            defs.append(d)
    elif shape == 'value-validated':
        # parameter types that tell values of one class apart (a host type
        # with a validator, one type object for all its uses)
        k = draw(st.integers(2, 3))
        argvals = [draw(st.sampled_from([0, 7, -3, 5])) for _ in range(k)]
        for _ in range(draw(st.integers(2, 4))):
            mk([draw(st.sampled_from(['Pos', 'Pos', 'int', 'Integer',
                                      'Number', 'obj'])) for _ in range(k)])
    elif shape == 'inferred-from-defaults':
        # parameters the host left undeclared: yaql types them from their
        # default values; the members differ in nothing but those values
        k = draw(st.integers(1, 2))
        pool = [('int', 1), ('String', 'x'), ('bool', True), ('obj', None),
                ('A', {'o': 'a'})]
        argvals = [draw(st.sampled_from([7, 'y', True, {'o': 'a'}, None]))
                   for _ in range(k)]
        for _ in range(draw(st.integers(2, 4))):
            d = mk(['obj'] * k)
            for p in d['params']:
                t, v = draw(st.sampled_from(pool))
                p.update(type=t, nullable=True, default=v, undeclared=True)
    elif shape == 'partial-order' and k >= 2:
        # >=3 matches containing a comparable pair but no most specific one
        for _ in range(draw(st.integers(3, 4))):
            t = [draw(st.sampled_from(resfam.SUPERS[x][:3])) for x in top]
            mk(t)
    elif shape == 'incomparable' and k >= 2:
        # one most specific + >=2 incomparable generalisations
        mk(top)
        used = set()
        for _ in range(draw(st.integers(2, 3))):
            pos = draw(st.integers(0, k - 1))
            if pos in used and len(used) < k:
                pos = [p for p in range(k) if p not in used][0]
            used.add(pos)
            t = list(top)
            sup = resfam.SUPERS[top[pos]]
            t[pos] = sup[draw(st.integers(1, len(sup) - 1))]
            mk(t)
    elif shape == 'identical':
        mk(top)
        mk(top)
        if draw(st.booleans()):
            mk([resfam.SUPERS[t][-1] for t in top])
    elif shape == 'chain':
        t = list(top)
        mk(t)
        for _ in range(draw(st.integers(1, 3))):
            pos = draw(st.integers(0, k - 1))
            sup = resfam.SUPERS[t[pos]]
            if len(sup) > 1:
                t = list(t)
                t[pos] = sup[1]
            mk(t)
    else:
        for _ in range(draw(st.integers(2, 5))):
            t = [draw(st.sampled_from(resfam.SUPERS[x])) for x in top]
            mk(t)
    if shape == 'mixed-nokw':
        defs[draw(st.integers(0, len(defs) - 1))]['no_kwargs'] = True
    if shape == 'mixed-lazy':
        d = defs[draw(st.integers(0, len(defs) - 1))]
        d['params'][draw(st.integers(0, k - 1))]['lazy'] = True
    # spread over layers, sometimes exclusive
    if layers == 2:
        for d in defs:
            d['layer'] = draw(st.integers(0, 1))
        if draw(st.integers(0, 4)) == 0:
            draw(st.sampled_from(defs))['exclusive'] = True
    # shuffle tags so that the most specific one is not always first
    order = draw(st.permutations(range(len(defs))))
    defs = [defs[i] for i in order]
    call = {'args': list(argvals)}
    if shape not in ('mixed-nokw', 'zero-arg-tie',
                     'inferred-from-defaults') and k >= 1 and \
            draw(st.integers(0, 2)) == 0:
        # pass a suffix of the arguments by keyword
        cut = draw(st.integers(0, k - 1))
        call['kwargs'] = [['p%d' % i, argvals[i]]
                          for i in range(cut, k)]
        call['args'] = call['args'][:cut]
        if cut == 0 and k >= 2 and draw(st.booleans()):
            # all arguments by keyword: overloads may declare the
            # parameters in different orders
            for d in defs:
                if draw(st.booleans()):
                    d['params'] = list(draw(st.permutations(d['params'])))
        if draw(st.booleans()):
            # give the keyword-passed parameters defaults in some overloads
            for d in defs:
                if draw(st.booleans()):
                    for p in d['params'][cut:]:
                        if not p.get('lazy'):
                            p['default'] = None
                            p['nullable'] = True
    if shape == 'mixed-nokw' and draw(st.booleans()):
        # a mapping-style argument whose key is not a keyword
        call['args'] = call['args'][:-1] + [{'raw': '1 => 2'}]
    fam = {'layers': layers, 'defs': defs}
    fam['decl'] = draw(st.sampled_from(['assembled', 'signature',
                                        'shared-callable', 'shared-payload',
                                        'signature-reregistered']))
    if shape == 'inferred-from-defaults':
        fam['decl'] = 'signature'
    return {'kind': 'family', 'shape': shape, 'family': fam, 'call': call,
            'split': draw(st.integers(0, 2))}


def _shard(run, n, shard):
    run.hyp('families', biased_family(), lambda c: check_family(run, c), n,
            shard=shard)


CROSS = '''
import json, sys
sys.path.insert(0, %(src)r)
sys.path.insert(0, %(root)r)
import warnings; warnings.filterwarnings('ignore')
pad = [object() for _ in range(%(pad)d)]
from vf.props import c06
cases = json.load(open(%(path)r))
print(json.dumps([c06.outcome(c['family'], c['call'], None, False)
                  for c in cases]))
'''


def cross_process(run, cases):
    """unmodified Context in subprocesses with different hash seeds and
    allocation padding: outcomes must agree across processes"""
    import tempfile
    root = os.path.dirname(os.path.dirname(os.path.dirname(
        os.path.abspath(__file__))))
    src = sys.path[0]
    with tempfile.TemporaryDirectory() as d:
        path = os.path.join(d, 'cases.json')
        with open(path, 'w') as f:
            json.dump(cases, f)
        outs = []
        for i in range(8):
            env = dict(os.environ, PYTHONHASHSEED=str(i * 7919 + 1))
            code = CROSS % {'src': os.environ.get('YAQL_SRC', '/repo'),
                            'root': root, 'pad': i * 1013, 'path': path}
            p = subprocess.run([sys.executable, '-W', 'ignore', '-c', code],
                               env=env, capture_output=True, text=True,
                               timeout=600)
            if p.returncode != 0:
                raise RuntimeError('cross-process worker failed: '
                                   + p.stderr[-800:])
            outs.append(json.loads(p.stdout.strip().splitlines()[-1]))
    for j, c in enumerate(cases):
        seen = {json.dumps(o[j]) for o in outs}
        run.count(8, cls='cross-process-evaluations')
        if len(seen) > 1:
            run.violate('outcome-differs-between-processes', c,
                        'outcomes across 8 processes: %s' % sorted(seen),
                        input_class='cross-process')


FIXED = [
    # the critical shape of the property statement
    {'kind': 'family', 'shape': 'incomparable', 'family': {
        'layers': 1, 'defs': [
            {'tag': 'BA', 'layer': 0, 'kind': 'function', 'params': [
                {'name': 'x', 'type': 'B'}, {'name': 'y', 'type': 'A'}]},
            {'tag': 'AB', 'layer': 0, 'kind': 'function', 'params': [
                {'name': 'x', 'type': 'A'}, {'name': 'y', 'type': 'B'}]},
            {'tag': 'BB', 'layer': 0, 'kind': 'function', 'params': [
                {'name': 'x', 'type': 'B'}, {'name': 'y', 'type': 'B'}]}]},
     'call': {'args': [{'o': 'b'}, {'o': 'b'}]}},
]
# several overloads of one layer that all accept a call without arguments
_ZERO = {
    'none': [], 'default': [{'name': 'p0', 'type': 'obj', 'nullable': True,
                             'default': 1}],
    'hidden': [{'name': 'h', 'type': 'obj', 'hidden': True}],
    'two-defaults': [{'name': 'p0', 'type': 'int', 'nullable': False,
                      'default': 0},
                     {'name': 'p1', 'type': 'String', 'nullable': True,
                      'default': None}]}
for _a, _b in (('none', 'default'), ('none', 'none'), ('default', 'hidden'),
               ('two-defaults', 'none'), ('hidden', 'hidden')):
    for _decl in ('assembled', 'signature'):
        FIXED.append({'kind': 'family', 'shape': 'zero-arg-tie', 'family': {
            'layers': 1, 'decl': _decl, 'defs': [
                {'tag': 't0', 'layer': 0, 'kind': 'function',
                 'params': [dict(p) for p in _ZERO[_a]]},
                {'tag': 't1', 'layer': 0, 'kind': 'function',
                 'params': [dict(p) for p in _ZERO[_b]]}]},
            'call': {'args': []}, 'split': 0})


def run(run):
    full = run.tier == 'thorough'
    _engine()
    common.std_context()
    for c in FIXED:
        check_family(run, c)
    k = 16
    n = (16000 if full else 4800) // k
    run.shards(_shard, [(n, i) for i in range(k)])
    if full:
        import hypothesis
        cases = []
        strat = biased_family()
        for i in range(300):
            @hypothesis.seed(runner_seed(run, i))
            @hypothesis.settings(max_examples=1, database=None,
                                 deadline=None,
                                 phases=[hypothesis.Phase.generate],
                                 suppress_health_check=list(
                                     hypothesis.HealthCheck))
            @hypothesis.given(strat)
            def grab(c):
                cases.append(c)
            grab()
        cross_process(run, FIXED + cases)


def runner_seed(run, i):
    from vf import runner
    return runner.derive_seed(run.seed, 'C06', 'cross', i)

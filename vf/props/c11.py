"""C11 - arguments are evaluated once, in order; lazy ones only on demand.

(a) sweep: every registered definition called with every eager argument
    wrapped in a numbered probe, positionally and by keyword in a permuted
    order; (b) generated expressions over the lazily evaluating operators
    (and/or, ?., switch, selectCase, switchCase, coalesce, ->, map/list
    expressions) against an evaluation-order model; (c) per-element lambda
    contracts of the query functions.
"""
import itertools

from hypothesis import strategies as st

from vf import common, stdlib_walk as W

RULE = ('(a) all registered definitions: each eager argument is '
        'tick(k, value); expected log = probes in source order, once each '
        '(or empty when resolution fails before evaluation); keyword '
        'spellings are emitted in reversed and rotated order; (b) Hypothesis '
        'expressions of depth <=4 over and/or/not, comparisons, arithmetic, '
        '?., switch, selectCase, switchCase, coalesce, list and map '
        'expressions with a probe on every operand (about one leaf in twelve '
        'is an operand that fails when evaluated: index, key, division, '
        'resolution error), log and failure predicted by models of their '
        'documented meaning; (c) 30 per-element lambda '
        'contracts over lists of distinct integers; non-trivial = >=2 probes '
        'and (a lazy position whose contract predicts "not evaluated" for '
        'some probe, or a name with >=2 overloads, or a permuted keyword '
        'order); distinct = distinct case')
ASSUMPTIONS = [
    'where the documentation fixes no order between two different lambdas '
    'applied to the same element (toDict/groupBy key vs value selector) '
    'only per-lambda order and counts are compared',
    'ordering key selectors: the primary one is applied to every element '
    'exactly once when n >= 2 (a single element needs no key), secondary '
    'ones at most once per element (only ties need them), in any order',
]


def _engine():
    return common.engine({'yaql.limitIterators': 300,
                          'yaql.memoryQuota': 10 ** 6})


# --------------------------------------------------------------------------
# (a) sweep over the library

_S = {}


def _ctx():
    if 'ctx' not in _S:
        log = []
        ctx = W.clone_context()
        common.add_tick(ctx, log)
        _S['ctx'], _S['log'] = ctx, log
    return _S['ctx'], _S['log']


def check_sweep(run, case):
    defs = {d.id: d for d in W.definitions()}
    d = defs.get(case['def'])
    if d is None:
        run.exclude('definition no longer registered')
        return
    call = W.default_call(d, case.get('fill', 0))
    ctx, log = _ctx()
    # wrap every eager ('var') filler in a probe
    binds = {}
    ids = []

    def wrap(f, p):
        kind, v = f
        if kind != 'var' or p is None or p.lazy:
            return (kind, v), None
        k = len(ids) + 1
        ids.append(k)
        name = 't%d' % k
        binds[name] = v
        return ('src', 'tick(%d, $%s)' % (k, name)), k
    pos_params = list(d.positional) + [d.varargs] * max(
        0, len(call.positional) - len(d.positional))
    positional = [wrap(f, p)[0] for f, p in zip(call.positional, pos_params)]
    by_alias = {p.alias: p for p in d.kwonly}
    kw = [(k, wrap(f, by_alias.get(k))[0]) for k, f in call.kw]
    mode = case.get('mode', 'positional')
    if mode != 'positional':
        # pass a suffix of the positional parameters by keyword, permuted
        if d.no_kwargs or d.varargs or not d.positional:
            return
        first = 1 if d.method_only else 0
        cut = max(first, len(d.positional) - case.get('nkw', 2))
        moved = [(p.alias, f) for p, f in zip(d.positional[cut:],
                                              positional[cut:])]
        if len(moved) + len(kw) < 2:
            return
        positional = positional[:cut]
        kw = moved + kw
        if mode == 'kw-reversed':
            kw = kw[::-1]
        else:
            kw = kw[1:] + kw[:1]
    c = W.Call(d, positional, kw)
    text, b2 = c.render()
    binds.update(b2)
    # probes in source order
    order = []
    import re
    for m in re.finditer(r'tick\((\d+),', text):
        order.append(int(m.group(1)))
    del log[:]
    try:
        out = ('ok', W.evaluate(text, binds, ctx, _engine()))
    except Exception as e:   # noqa
        out = ('exc', e)
    got = list(log)
    overloads = sum(1 for x in W.definitions() if x.fd.name == d.fd.name)
    run.case(case, len(order) >= 2 and (overloads >= 2 or
                                        mode != 'positional'),
             cls=['sweep', 'mode=' + mode])
    # (the receiver of a method call is evaluated by the '.' operator before
    # resolution starts, so a call that fails to resolve logs only that)
    receiver_only = order[:1] if (d.method_only and order and
                                  text.startswith('tick(')) else []
    if got != order and got != [] and got != receiver_only:
        run.violate('eager-arguments-not-once-in-source-order', case,
                    '%s: probes in source order %r, evaluation log %r' % (
                        text, order, got),
                    input_class='%s/%s' % (d.fd.name, mode))
    elif got == [] and order and out[0] == 'ok':
        run.violate('eager-arguments-not-evaluated', case,
                    '%s returned %r without evaluating its arguments' % (
                        text, out[1]), input_class='%s/%s' % (d.fd.name,
                                                              mode))


# --------------------------------------------------------------------------
# (b) contracts of lazily evaluating operators: AST + model

class Boom(Exception):
    """an operand that fails while it is evaluated"""


BOOMS = {'index': ('[tick(%d, 1)][9]', 'IndexError'),
         'key': ('{a => tick(%d, 1)}.zz', 'KeyError'),
         'zero': ('(tick(%d, 1) / 0)', 'ZeroDivisionError'),
         'nomatch': ("(tick(%d, 1) + 'a')", 'NoMatchingFunctionException')}


class Ev:
    """model evaluator: returns value, appends probe ids to log"""

    def __init__(self):
        self.log = []

    def ev(self, n):
        k = n[0]
        if k == 'tick':
            v = self.ev(n[2])
            self.log.append(n[1])
            return v
        if k == 'lit':
            return n[1]
        if k == 'boom':
            self.log.append(n[1])
            raise Boom(n[2])
        if k == 'and':
            a = self.ev(n[1])
            return a and self.ev(n[2])
        if k == 'or':
            a = self.ev(n[1])
            return a or self.ev(n[2])
        if k == 'not':
            return not self.ev(n[1])
        if k == 'eq':
            a = self.ev(n[1])
            b = self.ev(n[2])
            return a == b
        if k == 'list':
            return [self.ev(c) for c in n[1]]
        if k == 'map':
            out = {}
            for kk, vv in n[1]:
                key = self.ev(kk)
                out[key] = self.ev(vv)
            return out
        if k == 'coalesce':
            for c in n[1]:
                v = self.ev(c)
                if v is not None:
                    return v
            return None
        if k == 'switch':
            for cond, val in n[1]:
                if self.ev(cond):
                    return self.ev(val)
            return None
        if k == 'selectCase':
            i = 0
            for c in n[1]:
                if self.ev(c):
                    return i
                i += 1
            return i
        if k == 'switchCase':
            case = self.ev(n[1])
            args = n[2]
            if 0 <= case < len(args):
                return self.ev(args[case])
            if not args:
                return None
            return self.ev(args[-1])
        if k == 'elvis':
            a = self.ev(n[1])
            if a is None:
                return None
            return [a, self.ev(n[2])]
        if k == 'arrow':
            x = self.ev(n[1])
            return [x, self.ev(n[2])]
        if k == 'examine-first':
            # examine(...) is lazy: only the first result is pulled
            return bool(self.ev(n[1][0])) if n[1] else None
        raise ValueError(k)


def text_of(n):
    k = n[0]
    if k == 'tick':
        return 'tick(%d, %s)' % (n[1], text_of(n[2]))
    if k == 'lit':
        return common.lit(n[1])
    if k == 'boom':
        return BOOMS[n[2]][0] % n[1]
    if k in ('and', 'or'):
        return '(%s %s %s)' % (text_of(n[1]), k, text_of(n[2]))
    if k == 'not':
        return '(not %s)' % text_of(n[1])
    if k == 'eq':
        return '(%s = %s)' % (text_of(n[1]), text_of(n[2]))
    if k == 'list':
        return '[%s]' % ', '.join(text_of(c) for c in n[1])
    if k == 'map':
        return '{%s}' % ', '.join('%s => %s' % (text_of(a), text_of(b))
                                  for a, b in n[1])
    if k == 'coalesce':
        return 'coalesce(%s)' % ', '.join(text_of(c) for c in n[1])
    if k == 'switch':
        return 'switch(%s)' % ', '.join('%s => %s' % (text_of(a), text_of(b))
                                        for a, b in n[1])
    if k == 'selectCase':
        return 'selectCase(%s)' % ', '.join(text_of(c) for c in n[1])
    if k == 'switchCase':
        return '%s.switchCase(%s)' % (text_of(n[1]), ', '.join(
            text_of(c) for c in n[2]))
    if k == 'elvis':
        return 'let(x => %s) -> [$x, $x?.echo(%s)][1]' % (
            text_of(n[1]), text_of(n[2]))
    if k == 'arrow':
        return '(let(y => %s) -> [$y, %s])' % (text_of(n[1]), text_of(n[2]))
    if k == 'examine-first':
        return 'examine(%s).first(null)' % ', '.join(text_of(c)
                                                     for c in n[1])
    raise ValueError(k)


def _json_to_tuple(n):
    if isinstance(n, list):
        return tuple(_json_to_tuple(i) for i in n)
    return n


def check_contract(run, case):
    ast = _json_to_tuple(case['ast'])
    m = Ev()
    try:
        exp = ('ok', m.ev(ast))
    except Boom as b:
        exp = ('boom', str(b))
    except Exception:   # noqa
        exp = ('err', None)
    text = text_of(ast)
    log = []
    ctx = common.child()
    common.add_tick(ctx, log)

    def echo(receiver, x):
        return (receiver, x)
    ctx.register_function(echo, name='echo', method=True)
    try:
        got = ('ok', _engine()(text).evaluate(context=ctx))
    except Exception as e:   # noqa
        got = ('exc', e)
    all_ids = _ids(ast)
    skipped = [i for i in all_ids if i not in m.log]
    run.case(case, len(all_ids) >= 2 and bool(skipped),
             cls=['contract'] + sorted({'has-' + k for k in _kinds(ast)}))
    ic = '+'.join(sorted(_kinds(ast) - {'tick', 'lit'}))
    if exp[0] == 'err':
        return
    if exp[0] == 'boom':
        # the failure of an evaluated operand is the failure of the whole
        # expression, and nothing is evaluated after it
        want = BOOMS[exp[1]][1]
        if got[0] == 'ok':
            run.violate('operand-failure-swallowed', case,
                        '%s -> %r although the operand with probe %d fails'
                        % (text, got[1], m.log[-1]), input_class=ic)
        elif want is not None and type(got[1]).__name__ != want:
            run.violate('operand-failure-replaced', case,
                        '%s raised %s, the failing operand raises %s' % (
                            text, type(got[1]).__name__, want), exc=got[1],
                        input_class=ic)
        elif log != m.log:
            run.violate('evaluation-trace-differs', case,
                        '%s: evaluation log %r, contract predicts %r (then '
                        'the failure)' % (text, log, m.log), input_class=ic)
        return
    if got[0] != 'ok':
        run.violate('contract-expression-raises', case, '%s raised %s: %s' % (
            text, type(got[1]).__name__, got[1]), exc=got[1], input_class=ic)
        return
    if log != m.log:
        run.violate('evaluation-trace-differs', case,
                    '%s: evaluation log %r, contract predicts %r' % (
                        text, log, m.log), input_class=ic)
    elif _canon(got[1]) != _canon(_fix_elvis(exp[1])):
        run.violate('contract-value-differs', case, '%s -> %r, model %r' % (
            text, got[1], exp[1]), input_class=ic)


def _fix_elvis(v):
    return v


def _canon(x):
    if isinstance(x, (list, tuple)):
        return [_canon(i) for i in x]
    if isinstance(x, dict):
        return {k: _canon(v) for k, v in x.items()}
    return x


def _ids(n):
    out = []
    if isinstance(n, tuple):
        if n and n[0] in ('tick', 'boom'):
            out.append(n[1])
        for c in n:
            out.extend(_ids(c))
    return out


def _kinds(n):
    out = set()
    if isinstance(n, tuple):
        if n and isinstance(n[0], str):
            out.add(n[0])
        for c in n:
            out |= _kinds(c)
    return out


# --------------------------------------------------------------------------
# (c) per-element lambda contracts

def _upto(L, pred, inclusive=True):
    out = []
    for x in L:
        out.append(x)
        if pred(x):
            return out
    return out


def P(x):
    return x % 3 == 0


ELEMENT_CONTRACTS = {
    # name: (text, f(L, o) -> {lambda offset: expected list} , mode)
    'select': ('$c.select(tick($, $ * 2))', lambda L, o: {0: L}),
    'where': ('$c.where(tick($, $ mod 3 = 0))', lambda L, o: {0: L}),
    'selectMany': ('$c.selectMany(tick($, [$, $]))', lambda L, o: {0: L}),
    'any': ('$c.any(tick($, $ mod 3 = 0))', lambda L, o: {0: _upto(L, P)}),
    'all': ('$c.all(tick($, $ mod 3 != 0))', lambda L, o: {0: _upto(L, P)}),
    'takeWhile': ('$c.takeWhile(tick($, $ mod 3 != 0))',
                  lambda L, o: {0: _upto(L, P)}),
    'skipWhile': ('$c.skipWhile(tick($, $ mod 3 != 0))',
                  lambda L, o: {0: _upto(L, P)}),
    'indexWhere': ('$c.indexWhere(tick($, $ mod 3 = 0))',
                   lambda L, o: {0: _upto(L, P)}),
    'lastIndexWhere': ('$c.lastIndexWhere(tick($, $ mod 3 = 0))',
                       lambda L, o: {0: L}),
    'where-first': ('$c.where(tick($, $ mod 3 = 0)).first(-1)',
                    lambda L, o: {0: _upto(L, P)}),
    'select-take2': ('$c.select(tick($, $)).take(2)',
                     lambda L, o: {0: ('prefix', L, min(2, len(L)))}),
    'select-first': ('$c.select(tick($, $)).first(-1)',
                     lambda L, o: {0: ('prefix', L, min(1, len(L)))}),
    'toDict': ('$c.toDict(tick($, $), tick(100 + $, $ * 2))',
               lambda L, o: {0: L, 100: L}),
    # per element: the key selector, then the value selector
    'toDict-order': ('$c.toDict(tick($, $), tick(100 + $, $ * 2))',
                     lambda L, o: {'log': [t for x in L
                                           for t in (x, 100 + x)]}),
    'toDict-order-kw': ('$c.toDict(tick($, $), valueSelector => '
                        'tick(100 + $, $ * 2))',
                        lambda L, o: {'log': [t for x in L
                                              for t in (x, 100 + x)]}),
    'groupBy': ('$c.groupBy(tick($, $ mod 2), tick(100 + $, $), '
                'tick(200 + $[0], $.len()))',
                lambda L, o: {0: L, 100: L, 200: _first_keys(L)}),
    'groupBy-key-only': ('$c.groupBy(tick($, $ mod 2))',
                         lambda L, o: {0: L}),
    'distinct': ('$c.distinct(tick($, $ mod 2))', lambda L, o: {0: L}),
    'aggregate': ('$c.aggregate(tick($2, $1 + $2), 0)',
                  lambda L, o: {0: L}),
    'aggregate-noseed': ('$c.aggregate(tick($2, $1 + $2))',
                         lambda L, o: {0: L[1:]} if L else None),
    'accumulate': ('$c.accumulate(tick($2, $1 + $2), 0)',
                   lambda L, o: {0: L}),
    'join': ('$c.join($o, tick($1 * 10 + $2, $1 < $2), '
             'tick(1000 + $1 * 10 + $2, [$1, $2]))',
             lambda L, o: {0: [x * 10 + y for x in L for y in o],
                           1000: [x * 10 + y for x in L for y in o
                                  if x < y]}),
    'splitWhere': ('$c.splitWhere(tick($, $ mod 3 = 0))',
                   lambda L, o: {0: L}),
    'sliceWhere': ('$c.sliceWhere(tick($, $ mod 3 = 0))',
                   lambda L, o: {0: L}),
    'generate': ('generate(0, tick($, $ < 4), tick(100 + $, $ + 1), '
                 'tick(200 + $, $))',
                 lambda L, o: {0: [0, 1, 2, 3, 4], 100: [0, 1, 2, 3],
                               200: [0, 1, 2, 3]}),
    'generate-decycle': (
        'generate(0, tick($, $ >= 0), tick(100 + $, ($ + 1) mod '
        '($o.len() + 1)), tick(200 + $, $), decycle => true)',
        lambda L, o: (lambda n: {0: list(range(n)) + [0],
                                 100: list(range(n)),
                                 200: list(range(n))})(len(o) + 1)),
    'generate-decycle-noselector': (
        'generate(0, tick($, $ >= 0), tick(100 + $, ($ + 1) mod '
        '($o.len() + 1)), decycle => true)',
        lambda L, o: (lambda n: {0: list(range(n)) + [0],
                                 100: list(range(n))})(len(o) + 1)),
    'generateMany-decycle': (
        'generateMany(0, tick($, [($ + 1) mod ($o.len() + 1), 0]), '
        'tick(100 + $, $), decycle => true)',
        lambda L, o: (lambda n: {0: list(range(n)),
                                 100: list(range(n))})(len(o) + 1)),
    'generateMany-depthFirst': (
        'generateMany(1, tick($, switch($ < ($o.len() + 1) => [$ * 2, '
        '$ * 2 + 1], true => [])), tick(100 + $, $), depthFirst => true)'
        '.take(4)',
        lambda L, o: None),
    'mergeWith-item': ('{a => 1, b => 2}.mergeWith({b => 3, c => 4}, '
                       'itemMerger => tick($1, $1 + $2))',
                       lambda L, o: {0: [2]}),
    'orderBy': ('$c.orderBy(tick($, -$))', lambda L, o: {0: ('set', L)}),
    'orderBy-thenBy': ('$c.orderBy(tick($, $ mod 2)).thenBy(tick(100 + $, '
                       '$))', lambda L, o: {0: ('set', L),
                                            100: ('subset', L)}),
    # an ordered collection bound to a variable and iterated twice: the
    # keys were computed for the first pass
    'orderBy-twice': ('let(s => $c.orderBy(tick($, -$))) -> '
                      '[$s.toList(), $s.toList(), $s.len()]',
                      lambda L, o: {0: ('set', L)}),
    'orderBy-assert': ('$c.orderBy(tick($, $)).assert($.len() >= 0)',
                       lambda L, o: {0: ('set', L)}),
    'orderBy-thenBy-twice': (
        'let(s => $c.orderBy(tick($, $ mod 2)).thenBy(tick(100 + $, $))) -> '
        '[$s.toList(), $s.toList()]',
        lambda L, o: {0: ('set', L), 100: ('subset', L)}),
    # groupBy with an aggregator is lazy: the aggregator runs for a group
    # when that group is consumed
    'groupBy-first': ('$c.groupBy($ mod 2, $, tick(200 + $[0], $.len()))'
                      '.first(null)',
                      lambda L, o: {200: ('prefix', _first_keys(L),
                                          min(1, len(_first_keys(L))))}),
    'groupBy-then-select': (
        '$c.groupBy($ mod 2, $, tick(200 + $[0], $.len()))'
        '.select(tick(300 + $[0], $))',
        lambda L, o: {'log': [x for fv in _first_keys(L)
                              for x in (200 + fv, 300 + fv % 2)]}),
    # an ordering that is handed on but never (or only later) consumed:
    # the keys are not computed before somebody pulls from it
    'orderBy-take0': ('$c.orderBy(tick($, $)).take(0)',
                      lambda L, o: {0: []}),
    'orderBy-unused': ('let(s => $c.orderBy(tick($, $)).select($)) -> 1',
                       lambda L, o: {0: []}),
    'orderBy-zip-empty': ('[].zip($c.orderBy(tick($, $)))',
                          lambda L, o: {0: []}),
    'orderBy-after-sibling': (
        '[$c.orderBy(tick($, $)).where(true), tick(999, 9)]',
        lambda L, o: {'first': 999}),
    # an aggregator in the [key, values] -> [key, aggregate] convention: the
    # current convention is tried on the first group only
    'groupBy-old-convention': (
        '$c.groupBy($ mod 2, $, [tick(200 + $[0], $[0]), $[1].sum()])',
        lambda L, o: None if not L else {'log': [
            200 + L[0], 200 + L[0] % 2] + (
            [200 + (1 - L[0] % 2)] if any(
                x % 2 != L[0] % 2 for x in L) else [])}),
    # keys that are null are keys like any other: computed once
    'orderBy-null-keys': (
        '$c.orderBy(tick($, switch($ mod 2 = 0 => null, true => $)))',
        lambda L, o: {0: ('set', L)}),
    'orderBy-all-null-keys': ('$c.orderBy(tick($, null))',
                              lambda L, o: {0: ('set', L)}),
    'orderBy-falsy-keys': (
        "$c.orderBy(tick($, [0, null, 0.0][$ mod 3]))",
        lambda L, o: {0: ('set', L)}),
    # join streams its receiver: the lambdas of a lazy receiver run for the
    # elements that were consumed
    'join-lazy-receiver-first': (
        '$c.select(tick($, $)).join([7, 8], true, [$1, $2]).first(null)',
        lambda L, o: {0: ('prefix', L, min(1, len(L)))}),
    'join-lazy-receiver-take': (
        '$c.select(tick($, $)).join([7, 8], true, [$1, $2]).take(3)',
        lambda L, o: {0: ('prefix', L, min(2, len(L)))}),
    # accumulate without a seed is as lazy as with one: nothing is pulled
    # from its receiver before somebody pulls from it
    'accumulate-noseed-after-sibling': (
        '[$c.select(tick($, $)).accumulate($1 + $2).where(true), '
        'tick(999, 9)]',
        lambda L, o: {'first': 999} if L else None),
    'accumulate-noseed-take0': (
        '$c.select(tick($, $)).accumulate($1 + $2).take(0)',
        lambda L, o: {0: []} if L else None),
    'accumulate-noseed-unused': (
        'let(s => $c.select(tick($, $)).accumulate($1 + $2)) -> 1',
        lambda L, o: {0: []}),
    'accumulate-noseed-first': (
        '$c.select(tick($, $)).accumulate($1 + $2).first(null)',
        lambda L, o: {0: ('prefix', L, min(1, len(L)))} if L else None),
    # the mergers of mergeWith run for the conflicting keys in the order of
    # the receiver's keys
    'mergeWith-item-order': (
        '{3 => 30, 2 => 20, 1 => 10}.mergeWith({1 => 1, 2 => 2, 3 => 3}, '
        'itemMerger => tick($1, $1 + $2))',
        lambda L, o: {'log': [30, 20, 10]}),
    'mergeWith-list-order': (
        '{q => [9], c => [1], b => [2], a => [3]}.mergeWith('
        '{a => [4], b => [5], c => [6]}, tick($1[0], $1 + $2))',
        lambda L, o: {'log': [1, 2, 3]}),
    'mergeWith-nested-order': (
        '{x => {3 => 30, 2 => 20, 1 => 10}}.mergeWith('
        '{x => {1 => 1, 2 => 2, 3 => 3}}, itemMerger => tick($1, $1 + $2))',
        lambda L, o: {'log': [30, 20, 10]}),
    'max-min-sum': ('[$c.sum(0), $c.max(0), $c.min(0)]', lambda L, o: {}),
    'dict-comprehension': ('dict($c.select([tick($, $), tick(100 + $, 1)]))',
                           lambda L, o: {0: L, 100: L}),
    'assert': ('$c.assert(tick(7, true))', lambda L, o: {0: [7]}),
    'let-lambda': ('$c.select(let(e => $) -> tick($e, $e))',
                   lambda L, o: {0: L}),
}


def _first_keys(L):
    """first element of every group (the aggregator sees the group's value
    list; its first value identifies the group), in first-occurrence order"""
    keys, out = [], []
    for x in L:
        if x % 2 not in keys:
            keys.append(x % 2)
            out.append(x)
    return out


def check_elements(run, case):
    name = case['contract']
    text, model = ELEMENT_CONTRACTS[name]
    L = list(case['c'])
    o = list(case.get('o', []))
    exp = model(L, o)
    log = []
    ctx = common.child()
    common.add_tick(ctx, log)
    ctx['$c'] = iter(L) if case.get('as_iter') else tuple(L)
    ctx['$o'] = tuple(o)
    try:
        got = ('ok', _engine()(text).evaluate(context=ctx))
    except Exception as e:   # noqa
        got = ('exc', e)
    run.case(case, len(L) >= 2, cls=['elements', 'contract=' + name])
    if exp is None:
        return
    if got[0] != 'ok':
        run.violate('element-contract-raises', case, '%s with %r raised %s: '
                    '%s' % (text, L, type(got[1]).__name__, got[1]),
                    exc=got[1], input_class=name)
        return
    if 'first' in exp:
        if log and log[0] != exp['first']:
            run.violate('lambda-not-applied-once-per-element-in-order', case,
                        '%s with c=%r: evaluation log %r starts with the '
                        'key selector of an ordering that nobody has pulled '
                        'from yet' % (text, L, log), input_class=name)
        return
    if 'log' in exp:
        # the whole trace, in order (interleaving of two lambdas)
        if log != exp['log']:
            run.violate('lambda-not-applied-once-per-element-in-order', case,
                        '%s with c=%r: evaluation log %r, contract %r' % (
                            text, L, log, exp['log']), input_class=name)
        return
    offsets = sorted(exp, reverse=True)

    def offset_of(i):
        for off in offsets:
            if i >= off:
                return off
        return 0
    per = {off: [] for off in exp}
    for i in log:
        off = offset_of(i)
        per.setdefault(off, []).append(i - off)
    for off, want in exp.items():
        have = per.get(off, [])
        ok = True
        if isinstance(want, tuple) and want[0] == 'set':
            ok = set(have) <= set(want[1]) and (
                len(want[1]) < 2 or set(have) == set(want[1]))
        elif isinstance(want, tuple) and want[0] == 'subset':
            ok = set(have) <= set(want[1])
        elif isinstance(want, tuple) and want[0] == 'prefix':
            full, need = want[1], want[2]
            ok = have == full[:len(have)] and need <= len(have) <= need + 1
        else:
            ok = have == want
        if ok and isinstance(want, tuple) and want[0] in ('set', 'subset') \
                and len(have) != len(set(have)):
            # a key selector is applied to an element at most once (a
            # defect fixed in 06cec4f: the comparator re-evaluated it)
            run.violate('ordering-key-selector-evaluated-per-comparison',
                        case, '%s with c=%r: key selector applied %d times '
                        'for %d elements (log %r)' % (
                            text, L, len(have), len(want[1]), have),
                        input_class=name)
        if not ok:
            run.violate('lambda-not-applied-once-per-element-in-order', case,
                        '%s with c=%r o=%r: lambda #%d applied to %r, '
                        'contract %r' % (text, L, o, off, have, want),
                        input_class=name)
            return
    extra = [i for i in per if i not in exp and per[i]]
    if extra:
        run.violate('unexpected-evaluations', case, '%s: log %r' % (
            text, log), input_class=name)


# ---- method calls on yaqlized host objects ---------------------------------
# (their arguments are evaluated by the '.' operator of the yaqlized library,
# not by the runner: same rule - once each, in source order)

class _Host:
    def m(self, *a, **kw):
        return [list(a), sorted(kw.items())]


def check_yaqlized_call(run, case):
    from yaql import yaqlization
    ctx = common.child()
    log = []
    common.add_tick(ctx, log)
    ctx['$y'] = yaqlization.yaqlize(_Host())
    parts, order, boom_at = [], [], None
    for i, a in enumerate(case['args'], 1):
        kind, name = a
        src = 'tick(%d, %d)' % (i, i * 10)
        if kind == 'boom' and boom_at is None:
            src = '[tick(%d, 1)][9]' % i
            boom_at = i
        parts.append(('%s => %s' % (name, src)) if name else src)
        order.append(i)
    text = '$y.m(%s)' % ', '.join(parts)
    if boom_at is not None:
        order = order[:boom_at]
    try:
        got = ('ok', _engine()(text).evaluate(context=ctx))
    except Exception as e:   # noqa
        got = ('exc', e)
    run.case(case, len(case['args']) >= 2 and any(n for _, n in case['args']),
             cls=['yaqlized-call'])
    if log != order:
        run.violate('eager-arguments-not-once-in-source-order', case,
                    '%s: probes in source order %r, evaluation log %r' % (
                        text, order, log), input_class='yaqlized-method')
        return
    if boom_at is None and got[0] != 'ok':
        run.violate('contract-expression-raises', case, '%s raised %s: %s' % (
            text, type(got[1]).__name__, got[1]), exc=got[1],
            input_class='yaqlized-method')
    elif boom_at is not None and got[0] == 'ok':
        run.violate('operand-failure-swallowed', case, '%s -> %r' % (
            text, got[1]), input_class='yaqlized-method')


REPLAY = {'sweep': check_sweep, 'contract': check_contract,
          'elements': check_elements, 'yaqlized-call': check_yaqlized_call}

# --------------------------------------------------------------------------

leaf_vals = st.sampled_from([True, False, None, 0, 1, 2, 'a', ''])


def asts():
    counter = itertools.count(1)

    @st.composite
    def node(draw, depth):
        tid = draw(st.integers(0, 0)) or None

        def t(n):
            return ('tick', next(ids), n)
        ids = node.ids
        if depth >= 3 or draw(st.integers(0, 3)) == 0:
            if draw(st.integers(0, 11)) == 0:
                return ('boom', next(ids), draw(st.sampled_from(
                    sorted(BOOMS))))
            return t(('lit', draw(leaf_vals)))
        k = draw(st.sampled_from(['and', 'or', 'not', 'eq', 'list', 'map',
                                  'coalesce', 'switch', 'selectCase',
                                  'switchCase', 'elvis', 'arrow', 'and',
                                  'or', 'coalesce', 'switch',
                                  'examine-first']))
        sub = lambda: draw(node(depth + 1))   # noqa
        if k in ('and', 'or', 'eq'):
            return t((k, sub(), sub()))
        if k == 'not':
            return t((k, sub()))
        if k == 'list':
            return t((k, tuple(sub() for _ in range(draw(
                st.integers(0, 3))))))
        if k == 'map':
            n = draw(st.integers(0, 3))
            keys = draw(st.lists(st.sampled_from(['a', 'b', 'c', 1, 2]),
                                 min_size=n, max_size=n))
            return t((k, tuple((('tick', next(ids), ('lit', kk)), sub())
                               for kk in keys)))
        if k in ('coalesce', 'selectCase', 'examine-first'):
            return t((k, tuple(sub() for _ in range(draw(
                st.integers(0, 4))))))
        if k == 'switch':
            return t((k, tuple((sub(), sub()) for _ in range(draw(
                st.integers(0, 3))))))
        if k == 'switchCase':
            case = ('tick', next(ids), ('lit', draw(st.integers(-7, 7))))
            return t((k, case, tuple(sub() for _ in range(draw(
                st.integers(0, 4))))))
        if k in ('elvis', 'arrow'):
            return t((k, sub(), sub()))
        raise AssertionError(k)

    @st.composite
    def top(draw):
        node.ids = itertools.count(1)
        return {'kind': 'contract', 'ast': draw(node(0))}
    return top()


@st.composite
def element_cases(draw):
    L = draw(st.lists(st.integers(1, 9), max_size=7, unique=True))
    return {'kind': 'elements',
            'contract': draw(st.sampled_from(sorted(ELEMENT_CONTRACTS))),
            'c': L, 'o': draw(st.lists(st.integers(1, 9), max_size=3,
                                       unique=True)),
            'as_iter': draw(st.booleans())}


def _sweep_shard(run, part, parts, fills):
    jobs = []
    for d in W.definitions():
        for f in range(fills):
            jobs.append({'kind': 'sweep', 'def': d.id, 'fill': f,
                         'mode': 'positional'})
            for mode in ('kw-reversed', 'kw-rotated'):
                for nkw in (2, 3):
                    jobs.append({'kind': 'sweep', 'def': d.id, 'fill': f,
                                 'mode': mode, 'nkw': nkw})
    for c in jobs[part::parts]:
        check_sweep(run, c)


def _hyp_shard(run, which, n, shard):
    if which == 'contract':
        run.hyp('contracts', asts(), lambda c: check_contract(run, c), n,
                shard=shard)
    else:
        run.hyp('elements', element_cases(),
                lambda c: check_elements(run, c), n, shard=shard)

        @st.composite
        def ycalls(draw):
            npos = draw(st.integers(0, 3))
            names = draw(st.lists(st.sampled_from(['a', 'b', 'k', 'z']),
                                  max_size=3, unique=True))
            args = [[draw(st.sampled_from(['ok', 'ok', 'ok', 'boom'])), None]
                    for _ in range(npos)]
            args += [[draw(st.sampled_from(['ok', 'ok', 'ok', 'boom'])), n_]
                     for n_ in names]
            return {'kind': 'yaqlized-call', 'args': args}
        run.hyp('yaqlized-calls', ycalls(),
                lambda c: check_yaqlized_call(run, c), max(n // 8, 10),
                shard=shard)


def run(run):
    full = run.tier == 'thorough'
    _engine()
    common.std_context(delegates=True)
    run.shards(_sweep_shard, [(i, 8, 6 if full else 2) for i in range(8)],
               watchdog=120)
    k = 4
    jobs = [('contract', (40000 if full else 2000) // k, i)
            for i in range(k)]
    jobs += [('elements', (20000 if full else 1600) // k, i)
             for i in range(k)]
    run.shards(_hyp_shard, jobs, watchdog=120)

"""C19 - string and regex functions agree with their reference model."""
import itertools
import re

from hypothesis import strategies as st

from vf import common
from vf.models import strmodel as M

RULE = ('single calls of every strings/regex function with strings over '
        '{a,b,c,A,space,-} plus unicode samples, start in [-len, len+2], '
        'length in [-2, len+2], counts in [-1,4], separators, replacement '
        'dicts, generated regex family x 8 flag combinations x selector '
        'forms; all 4096 characters() flag sets; non-trivial = non-empty '
        'string and (negative or past-the-end index, or >=2 matches, or a '
        'group in the pattern, or a dict with >=2 keys, or a non-ASCII '
        'character, or a non-default optional argument); distinct = distinct '
        'case')
ASSUMPTIONS = [
    'regex matching itself is delegated to CPython re in both model and '
    'implementation (documented semantics); the model builds records, splits '
    'and substitutions itself from finditer()',
    'case mapping is CPython str.upper/lower in both',
    'where the model predicts an error (empty separator) any exception is '
    'accepted',
]

ALPHA = 'abcA -'
UNI = ['é', 'ß', 'İ', '\U0001d4b3', 'é', 'ǅ', ' ', '\t', '\n']


def _eng():
    return common.engine({'yaql.convertSetsToLists': False})


def ev(text, binds):
    ctx = common.child()
    for k, v in binds.items():
        ctx['$' + k] = v
    try:
        return ('ok', _eng()(text).evaluate(context=ctx))
    except Exception as e:   # noqa
        return ('exc', e)


# --------------------------------------------------------------------------
# function table: name -> (builder(case) -> (text, binds, expected), )

def _opt(case, *names):
    """render optional args present in the case as keyword or positional"""
    out = []
    for n in names:
        if n in case:
            out.append('$' + n)
    return out


def b_substring(c):
    s, start = c['s'], c['start']
    if 'length' in c:
        return ('$s.substring($start, $length)', c,
                M.substring(s, start, c['length']))
    return '$s.substring($start)', c, M.substring(s, start)


def b_index_of(c):
    s, sub = c['s'], c['sub']
    if 'length' in c:
        return ('$s.indexOf($sub, $start, $length)', c,
                M.index_of3(s, sub, c['start'], c['length']))
    if 'start' in c:
        return '$s.indexOf($sub, $start)', c, M.index_of(s, sub, c['start'])
    return '$s.indexOf($sub)', c, M.index_of(s, sub)


def b_last_index_of(c):
    s, sub = c['s'], c['sub']
    if 'length' in c:
        return ('$s.lastIndexOf($sub, $start, $length)', c,
                M.last_index_of3(s, sub, c['start'], c['length']))
    if 'start' in c:
        return ('$s.lastIndexOf($sub, $start)', c,
                M.last_index_of(s, sub, c['start']))
    return '$s.lastIndexOf($sub)', c, M.last_index_of(s, sub)


def _split(name, model):
    def b(c):
        s = c['s']
        sep = c.get('sep')
        ms = c.get('max', -1)
        if 'sep' in c and 'max' in c:
            t = '$s.%s($sep, $max)' % name
        elif 'sep' in c:
            t = '$s.%s($sep)' % name
        elif 'max' in c:
            t = '$s.%s(maxSplits => $max)' % name
        else:
            t = '$s.%s()' % name
        return t, c, model(s, sep, ms)
    return b


def b_join(c):
    seq, sep = c['seq'], c['sep']
    t = '$seq.join($sep)' if c.get('form', 0) == 0 else '$sep.join($seq)'
    return t, c, M.join(seq, sep)


def b_split_join(c):
    """law: s.split(sep).join(sep) = s for non-empty sep"""
    return '$s.split($sep).join($sep)', c, c['s']


def _trim(name, model):
    def b(c):
        if 'chars' in c:
            return '$s.%s($chars)' % name, c, model(c['s'], c['chars'])
        return '$s.%s()' % name, c, model(c['s'])
    return b


def b_norm(c):
    if 'chars' in c:
        return '$s.norm($chars)', c, M.norm(c['s'], c['chars'])
    return '$s.norm()', c, M.norm(c['s'])


def b_is_empty(c):
    s = c['s']
    args = []
    if 'trim' in c:
        args.append('$trim')
    if 'chars' in c:
        args.append('chars => $chars')
    t = '$s.isEmpty(%s)' % ', '.join(args)
    if c.get('form') == 1:
        t = 'isEmpty($s%s)' % ''.join(', ' + a for a in args)
    return t, c, M.is_empty(s, c.get('trim', True), c.get('chars'))


def b_replace(c):
    if 'count' in c:
        return ('$s.replace($old, $new, $count)', c,
                M.replace(c['s'], c['old'], c['new'], c['count']))
    return '$s.replace($old, $new)', c, M.replace(c['s'], c['old'], c['new'])


def b_replace_dict(c):
    pairs = [tuple(p) for p in c['pairs']]
    d = dict(pairs)
    pairs = list(d.items())      # later duplicates overwrite, order of first
    binds = dict(c, d=d)
    if 'count' in c:
        return ('$s.replace($d, $count)', binds,
                M.replace_dict(c['s'], pairs, c['count']))
    return '$s.replace($d)', binds, M.replace_dict(c['s'], pairs)


def b_case(c):
    s = c['s']
    return ('[$s.toUpper(), $s.toLower(), $s.len(), len($s), '
            '$s.toCharArray(), isString($s), str($s)]', c,
            [s.upper(), s.lower(), len(s), len(s), list(s), True, s])


def b_starts_ends(c):
    s, a = c['s'], c['affixes']
    names = ['$x%d' % i for i in range(len(a))]
    binds = dict(c)
    for i, v in enumerate(a):
        binds['x%d' % i] = v
    t = '[$s.startsWith(%s), $s.endsWith(%s)]' % (', '.join(names),
                                                 ', '.join(names))
    return t, binds, [any(s[:len(p)] == p for p in a),
                      any(s[len(s) - len(p):] == p for p in a)]


def b_in_cmp(c):
    a, b = c['s'], c['sub']
    return ('[$sub in $s, $s < $sub, $s <= $sub, $s > $sub, $s >= $sub, '
            '$s = $sub, $s + $sub, concat($s, $sub, $s)]', c,
            [M._find(a, b, 0, len(a)) >= 0, a < b, a <= b, a > b, a >= b,
             a == b, a + b, a + b + a])


def b_str(c):
    v = c['v']
    if isinstance(v, int) and not isinstance(v, bool):
        return '[str($v), hex($v)]', c, [M.ystr(v), _hex(v)]
    return 'str($v)', c, M.ystr(v)


def _hex(v):
    digits = '0123456789abcdef'
    n, out = abs(v), ''
    while True:
        out = digits[n % 16] + out
        n //= 16
        if n == 0:
            break
    return ('-' if v < 0 else '') + '0x' + out


# regex -----------------------------------------------------------------

def _rx_expr(c):
    flags = []
    for k, name in (('ic', 'ignoreCase'), ('ml', 'multiLine'),
                    ('da', 'dotAll')):
        if c.get(k):
            flags.append('%s => true' % name)
    return 'regex($p%s)' % ''.join(', ' + f for f in flags)


def _rx(c):
    return M.compile_(c['p'], c.get('ic', False), c.get('ml', False),
                      c.get('da', False))


SELECTORS = {
    'whole': ('$', lambda env: env['1']),
    'one': ('$1', lambda env: env['1']),
    'value': ('$.value', lambda env: env['1']['value']),
    'span': ('[$1.start, $1.end]', lambda env: [env['1']['start'],
                                                env['1']['end']]),
    'g2': ('$2', lambda env: env.get('2')),
    'g2v': ('$2?.value', lambda env: (env.get('2') or {}).get('value')),
    'g3': ('$3', lambda env: env.get('3')),
    'named': ('$x', lambda env: env.get('x')),
    'namedv': ('$x?.value', lambda env: (env.get('x') or {}).get('value')),
    # selectors that return a lazily evaluated sequence which still refers
    # to the match records when it is consumed
    'lazy-g2': ('[0, 1].select($2?.value)', lambda env: [
        (env.get('2') or {}).get('value')] * 2),
    'lazy-named': ('[0].select([$x?.start, $2?.value])', lambda env: [
        [(env.get('x') or {}).get('start'),
         (env.get('2') or {}).get('value')]]),
    'all': ('[$1, $2, $3, $x, $y]', lambda env: [
        env.get('1'), env.get('2'), env.get('3'), env.get('x'),
        env.get('y')]),
}


def b_matches(c):
    rx = _rx(c)
    hit = rx.search(c['s']) is not None
    plain = re.search(c['p'], c['s']) is not None
    return ('[%s.matches($s), $s.matches($p), $s =~ $p, $s !~ $p, '
            '$s =~ %s, $s !~ %s, isRegex(%s)]' % (
                _rx_expr(c), _rx_expr(c), _rx_expr(c), _rx_expr(c)), c,
            [hit, plain, plain, not plain, hit, not hit, True])


def b_search(c):
    rx = _rx(c)
    m = rx.search(c['s'])
    sel = c.get('sel')
    if sel is None:
        return ('%s.search($s)' % _rx_expr(c), c,
                None if m is None else m.group())
    text, fn = SELECTORS[sel]
    return ('%s.search($s, %s)' % (_rx_expr(c), text), c,
            None if m is None else fn(M.match_env(rx, m)))


def b_search_all(c):
    rx = _rx(c)
    ms = M.search_all_matches(rx, c['s'])
    sel = c.get('sel')
    if sel is None:
        return ('%s.searchAll($s)' % _rx_expr(c), c, [m.group() for m in ms])
    text, fn = SELECTORS[sel]
    tail = ''
    if sel.startswith('lazy'):
        # materialise the outer sequence before any inner one is consumed
        tail = '.toList().select($.toList())' if c.get('form', 0) == 0 \
            else '.toList().reverse().select($.toList()).reverse()'
    return ('%s.searchAll($s, %s)%s' % (_rx_expr(c), text, tail), c,
            [fn(M.match_env(rx, m)) for m in ms])


def b_rsplit(c):
    rx = _rx(c)
    form = c.get('form', 0)
    if 'max' in c:
        t = ('%s.split($s, $max)' if form == 0 else '$s.split(%s, $max)')
        return t % _rx_expr(c), c, M.rsplit(rx, c['s'], c['max'])
    t = '%s.split($s)' if form == 0 else '$s.split(%s)'
    return t % _rx_expr(c), c, M.rsplit(rx, c['s'])


def b_rreplace(c):
    rx = _rx(c)
    repl = c['repl']
    form = c.get('form', 0)
    args = '$repl' + (', $count' if 'count' in c else '')
    t = ('%s.replace($s, ' + args + ')') if form == 0 else \
        ('$s.replace(%s, ' + args + ')')
    return (t % _rx_expr(c), c,
            M.rsub(rx, c['s'], lambda m: m.expand(repl), c.get('count', 0)))


REPL_SEL = {
    'upper': ('$.value.toUpper()', lambda env: env['1']['value'].upper()),
    'brack': ("'<' + $1.value + '>'", lambda env: '<%s>' % env['1']['value']),
    'start': ('str($.start)', lambda env: str(env['1']['start'])),
    'g2': ("str($2?.value)", lambda env: M.ystr(
        (env.get('2') or {}).get('value'))),
    'named': ("str($x?.value)", lambda env: M.ystr(
        (env.get('x') or {}).get('value'))),
}


def b_replace_by(c):
    rx = _rx(c)
    text, fn = REPL_SEL[c['sel']]
    form = c.get('form', 0)
    args = text + (', $count' if 'count' in c else '')
    t = ('%s.replaceBy($s, ' + args + ')') if form == 0 else \
        ('$s.replaceBy(%s, ' + args + ')')
    return (t % _rx_expr(c), c,
            M.rsub(rx, c['s'], lambda m: fn(M.match_env(rx, m)),
                   c.get('count', 0)))


def b_split_interleave(c):
    """law: pieces of regex.split interleaved with searchAll give s back
    (patterns without groups, no empty matches)"""
    rx = _rx(c)
    pieces = M.rsplit(rx, c['s'])
    ms = [m.group() for m in rx.finditer(c['s'])]
    inter = ''.join(a + b for a, b in itertools.zip_longest(
        pieces, ms, fillvalue=''))
    assert inter == c['s'], (pieces, ms)
    return ('[%s.split($s), %s.searchAll($s)]' % (
        _rx_expr(c), _rx_expr(c)), c, [pieces, ms])


def b_escape(c):
    s = c['s']
    return ('[escapeRegex($s), regex(escapeRegex($s)).search($sub + $s + '
            '$sub)]', c, [re.escape(s), s])


FNS = {
    'substring': b_substring, 'indexOf': b_index_of,
    'lastIndexOf': b_last_index_of,
    'split': _split('split', M.split),
    'rightSplit': _split('rightSplit', M.right_split),
    'join': b_join, 'split-join': b_split_join,
    'trim': _trim('trim', M.trim), 'trimLeft': _trim('trimLeft', M.trim_left),
    'trimRight': _trim('trimRight', M.trim_right),
    'norm': b_norm, 'isEmpty': b_is_empty, 'replace': b_replace,
    'replace-dict': b_replace_dict, 'case': b_case,
    'startsEnds': b_starts_ends, 'in-cmp': b_in_cmp, 'str': b_str,
    'matches': b_matches, 'search': b_search, 'searchAll': b_search_all,
    'regex-split': b_rsplit, 'regex-replace': b_rreplace,
    'replaceBy': b_replace_by, 'split-interleave': b_split_interleave,
    'escape': b_escape,
}


def _canon(v):
    if isinstance(v, tuple):
        return [_canon(i) for i in v]
    if isinstance(v, list):
        return [_canon(i) for i in v]
    if isinstance(v, dict):
        return {k: _canon(w) for k, w in v.items()}
    return v


def _nontrivial(fn, c):
    s = c.get('s', '')
    if not isinstance(s, str) or not s:
        return fn in ('join', 'str')
    n = len(s)
    if any(ord(ch) > 127 for ch in s):
        return True
    for k in ('start', 'length'):
        if k in c and (c[k] < 0 or c[k] >= n):
            return True
    if any(k in c for k in ('count', 'max', 'chars', 'trim', 'sel')):
        return True
    if 'pairs' in c and len(c['pairs']) >= 2:
        return True
    if 'p' in c:
        try:
            rx = _rx(c)
            return rx.groups > 0 or len(rx.findall(s)) >= 2
        except re.error:
            return False
    if 'sub' in c and c['sub'] and s.count(c['sub']) >= 2:
        return True
    if 'sep' in c and c['sep'] and s.count(c['sep']) >= 1:
        return True
    return fn in ('case', 'startsEnds', 'in-cmp')


def check_str(run, case):
    c = {k: common.dec(v) for k, v in case.items()}
    fn = c['fn']
    try:
        text, binds, expected = FNS[fn](c)
    except re.error:
        run.exclude('pattern rejected by re.compile')
        return
    binds = {k: v for k, v in binds.items()
             if k not in ('kind', 'fn', 'form', 'sel', 'pairs', 'ic', 'ml', 'da',
                          'affixes', 'property', 'signature', 'detail',
                          'seed', 'tier')}
    got = ev(text, binds)
    klass = [fn]
    if 'sel' in c:
        klass.append('selector=' + str(c['sel']))
    run.case(case, _nontrivial(fn, c), cls=klass)
    ic = fn + ('/' + str(c['sel']) if 'sel' in c else '')
    if expected is M.ERR:
        if got[0] == 'ok':
            run.violate('value-where-model-predicts-error', case,
                        '%s -> %r' % (text, got[1]), input_class=ic)
        return
    if got[0] != 'ok':
        run.violate('raises-where-model-gives-value', case,
                    '%s with %r raised %s: %s; model: %r' % (
                        text, {k: v for k, v in binds.items()},
                        type(got[1]).__name__, got[1], expected),
                    exc=got[1], input_class=ic)
        return
    if _canon(got[1]) != _canon(expected):
        run.violate('differs-from-model', case,
                    '%s with %r -> %r; model: %r' % (
                        text, {k: v for k, v in binds.items()},
                        got[1], expected), input_class=ic)


FLAG_NAMES = list(M.CLASSES)


def check_characters(run, case):
    mask = case['mask']
    flags = {n: bool(mask >> i & 1) for i, n in enumerate(FLAG_NAMES)}
    on = [n for n in FLAG_NAMES if flags[n]]
    text = 'characters(%s)' % ', '.join('%s => true' % n for n in on)
    got = ev(text, {})
    run.case(case, len(on) >= 1, fp=('characters', mask), cls='characters')
    if got[0] != 'ok':
        run.violate('characters-raises', case, '%s raised %s: %s' % (
            text, type(got[1]).__name__, got[1]), exc=got[1],
            input_class='characters')
        return
    res = list(got[1])
    exp = M.characters(flags)
    if set(res) != exp or len(res) != len(exp):
        run.violate('characters-differs-from-model', case,
                    '%s -> %d items (%d distinct), model %d' % (
                        text, len(res), len(set(res)), len(exp)),
                    input_class='characters')


REPLAY = {'str': check_str, 'characters': check_characters}


# --------------------------------------------------------------------------
# strategies

chars = st.one_of(st.sampled_from(ALPHA), st.sampled_from(ALPHA),
                  st.sampled_from(ALPHA), st.sampled_from(UNI))
strings = st.lists(chars, min_size=0, max_size=8).map(''.join)
subs = st.one_of(st.lists(st.sampled_from('abc'), min_size=0,
                          max_size=2).map(''.join),
                 st.sampled_from(['', 'a', 'ab', ' ', '-', 'é', 'abc',
                                  'ba']))


def _atoms():
    return st.sampled_from(['a', 'b', 'c', '.', '[ab]', '[^a]', ' ', '-',
                            'A', '\\s', '\\w', 'ab', 'é'])


@st.composite
def patterns(draw, groups=True):
    def piece(depth):
        k = draw(st.integers(0, 9 if depth < 2 and groups else 4))
        if k <= 3:
            p = draw(_atoms())
        elif k == 4:
            p = draw(_atoms()) + draw(st.sampled_from(['*', '+', '?']))
        elif k == 5:
            p = '(' + seq(depth + 1) + ')'
        elif k == 6:
            name = 'x' if 'x' not in used else 'y' if 'y' not in used \
                else None
            if name is None:
                p = '(' + seq(depth + 1) + ')'
            else:
                used.add(name)
                p = '(?P<%s>%s)' % (name, seq(depth + 1))
        elif k == 7:
            p = '(' + seq(depth + 1) + ')?'
        elif k == 8:
            p = '(?:' + seq(depth + 1) + '|' + seq(depth + 1) + ')'
        else:
            p = '(' + seq(depth + 1) + '|' + seq(depth + 1) + ')'
        return p

    def seq(depth):
        return ''.join(piece(depth)
                       for _ in range(draw(st.integers(1, 3))))
    used = set()
    body = seq(0)
    if draw(st.integers(0, 5)) == 0:
        body = '^' + body
        if draw(st.booleans()):
            # only the first branch of a top-level alternation is anchored
            body = body + '|' + draw(_atoms())
    if draw(st.integers(0, 5)) == 0:
        body = body + '$'
    return body


def _e(d):
    return {k: common.enc(v) for k, v in d.items()}


@st.composite
def str_cases(draw):
    fn = draw(st.sampled_from(sorted(FNS)))
    c = {'kind': 'str', 'fn': fn}
    s = draw(strings)
    n = len(s)
    start = st.integers(-n, n + 2)
    length = st.integers(-2, n + 2)
    count = st.integers(-1, 4)
    if fn in ('substring',):
        c.update(s=s, start=draw(start))
        if draw(st.booleans()):
            c['length'] = draw(length)
    elif fn in ('indexOf', 'lastIndexOf'):
        c.update(s=s, sub=draw(subs))
        k = draw(st.integers(0, 2))
        if k >= 1:
            c['start'] = draw(start)
        if k == 2:
            c['length'] = draw(length)
    elif fn in ('split', 'rightSplit'):
        c['s'] = s
        if draw(st.booleans()):
            c['sep'] = draw(st.sampled_from(['a', ' ', '-', 'ab', 'b', '',
                                             '  ', 'é']))
        if draw(st.integers(0, 3)) == 0:
            # a separator that overlaps itself in the subject: scanning from
            # the left and from the right cut at different places
            c['sep'], body = draw(st.sampled_from(
                [('aa', 'a'), ('aba', 'ab'), ('  ', ' '), ('--', '-'),
                 ('abab', 'ab')]))
            c['s'] = draw(st.sampled_from(['', 'c', 'b'])) + body * draw(
                st.integers(2, 5)) + draw(st.sampled_from(['', 'a', 'c']))
        if draw(st.booleans()):
            c['max'] = draw(count)
    elif fn == 'join':
        c['seq'] = draw(st.lists(st.one_of(
            strings, st.integers(-5, 5), st.none(), st.booleans(),
            st.floats(-2, 2, allow_nan=False)), max_size=4))
        c['sep'] = draw(st.sampled_from(['', ',', ' - ', 'a']))
        c['form'] = draw(st.integers(0, 1))
    elif fn == 'split-join':
        c.update(s=s, sep=draw(st.sampled_from(['a', ' ', '-', 'ab', 'b'])))
    elif fn in ('trim', 'trimLeft', 'trimRight', 'norm'):
        c['s'] = draw(st.one_of(strings, st.sampled_from(
            ['  a b  ', '\t a\n', '--a--', 'aaaa', '   ', '  x '])))
        if draw(st.booleans()):
            c['chars'] = draw(st.sampled_from(['a', 'ab', ' -', '', 'é ']))
        if fn == 'norm' and draw(st.integers(0, 9)) == 0:
            c['s'] = None
    elif fn == 'isEmpty':
        c['s'] = draw(st.one_of(strings, st.sampled_from(
            ['', ' ', '  \t', 'aa', 'abab', ' a '])))
        if draw(st.booleans()):
            c['trim'] = draw(st.booleans())
        if draw(st.booleans()):
            c['chars'] = draw(st.sampled_from(['a', 'ab', ' ']))
        c['form'] = draw(st.integers(0, 1))
        if draw(st.integers(0, 9)) == 0:
            c['s'] = None
    elif fn == 'replace':
        c.update(s=s, old=draw(subs), new=draw(st.sampled_from(
            ['', 'x', 'aa', 'é', 'ab'])))
        if draw(st.booleans()):
            c['count'] = draw(count)
    elif fn == 'replace-dict':
        # (keys of different types with the same string form - 1 and '1',
        # null and 'null' - are distinct keys, applied one after the other)
        keys = st.one_of(st.sampled_from(['a', 'ab', 'abc', 'b', ' ', 'x']),
                         st.sampled_from(['1', '0', 'null', 'true', '1']),
                         st.integers(0, 2), st.none(), st.booleans())
        vals = st.one_of(st.sampled_from(['x', 'yy', '', 'a', 'b']),
                         st.integers(0, 2), st.none())
        c['s'] = draw(st.one_of(strings, st.sampled_from(
            ['abc ab abc', 'a1b0', 'null true', 'aabb', 'a1b1',
             'null null true', '1101'])))
        c['pairs'] = draw(st.lists(st.tuples(keys, vals), min_size=0,
                                   max_size=4))
        if draw(st.integers(0, 2)) == 0:
            # two distinct keys with one string form, in either order
            a, b, text = draw(st.sampled_from([
                (1, '1', 'a1b1'), (0, '0', '1001'), (None, 'null',
                                                     'null null'),
                (True, 'true', 'true or true'), (2, '2', '2 2 2')]))
            twin = [(a, draw(vals)), (b, draw(vals))]
            if draw(st.booleans()):
                twin.reverse()
            at = draw(st.integers(0, len(c['pairs'])))
            c['pairs'] = [p_ for p_ in c['pairs'] if p_[0] not in (
                a, b)][:2]
            c['pairs'][at:at] = twin
            c['s'] = text
        if draw(st.booleans()):
            c['count'] = draw(count)
    elif fn == 'case':
        c['s'] = s
    elif fn == 'startsEnds':
        c['s'] = s
        c['affixes'] = draw(st.lists(subs, min_size=1, max_size=3))
    elif fn == 'in-cmp':
        c.update(s=s, sub=draw(st.one_of(subs, strings)))
    elif fn == 'str':
        c['v'] = draw(st.one_of(strings, st.none(), st.booleans(),
                                st.integers(-10 ** 20, 10 ** 20),
                                st.floats(allow_nan=False,
                                          allow_infinity=False)))
    elif fn == 'escape':
        c['s'] = draw(st.one_of(strings, st.sampled_from(
            ['a.b', '(x)', '[a]*', 'a\\b', '^$', 'a|b', '{1}'])))
        c['sub'] = draw(subs)
    else:
        # regex family
        groups = fn not in ('split-interleave',)
        c['p'] = draw(patterns(groups=groups))
        c['s'] = draw(st.one_of(strings, strings.map(lambda x: x + '\n' + x)))
        for k in ('ic', 'ml', 'da'):
            if draw(st.integers(0, 2)) == 0:
                c[k] = True
        if fn in ('search', 'searchAll') and draw(st.integers(0, 3)) > 0:
            c['sel'] = draw(st.sampled_from(sorted(SELECTORS)))
            if fn == 'searchAll' and draw(st.integers(0, 2)) == 0:
                # selectors whose result is consumed after the next match
                # was made, over subjects with several different matches
                c['sel'] = draw(st.sampled_from(['lazy-g2', 'lazy-named']))
                c['p'] = draw(st.sampled_from(
                    ['(a)(b|c)?', '(?P<x>[ab])(c|-)?', '(\\w)(\\w)',
                     '(?P<x>a)|(b)', '([abc])([abc])?(?P<y>-)?']))
                c['s'] = draw(st.sampled_from(
                    ['ab ac a', 'ac-bc b-', 'abcabc', 'a b ab', 'cb-ab-a']))
        if fn == 'replaceBy':
            c['sel'] = draw(st.sampled_from(sorted(REPL_SEL)))
        if fn in ('regex-split',) and draw(st.booleans()):
            c['max'] = draw(st.integers(0, 3))
        if fn in ('regex-replace', 'replaceBy') and draw(st.booleans()):
            c['count'] = draw(st.integers(0, 3))
        if fn == 'regex-replace':
            c['repl'] = draw(st.sampled_from(
                ['', 'x', '<\\g<0>>', 'é', '-']))
        if fn in ('regex-split', 'regex-replace', 'replaceBy', 'searchAll',
                  'search'):
            c['form'] = draw(st.integers(0, 1))
        if fn == 'split-interleave':
            # the law needs non-empty matches and no capture groups
            try:
                rx = M.compile_(c['p'], c.get('ic', False),
                                c.get('ml', False), c.get('da', False))
                if rx.groups or any(m.end() == m.start()
                                    for m in rx.finditer(c['s'])):
                    c['p'] = 'a+'
            except re.error:
                c['p'] = 'a+'
    return _e(c)


def _shard(run, n, shard):
    run.hyp('strings', str_cases(), lambda c: check_str(run, c), n,
            shard=shard)


def _chars_shard(run, part, parts, masks):
    for m in masks[part::parts]:
        check_characters(run, {'kind': 'characters', 'mask': m})


def run(run):
    full = run.tier == 'thorough'
    _eng()
    common.std_context()
    masks = list(range(4096))
    run.shards(_chars_shard, [(i, 8, masks) for i in range(8)])
    run.extra['exhaustive_subspace'] = (
        'all 4096 combinations of the 12 characters() flags')
    k = 16
    n = (300000 if full else 24000) // k
    run.shards(_shard, [(n, i) for i in range(k)])

"""C12 - all ways of passing the same arguments are equivalent.

For every registered definition (cloned under a fresh name so that sibling
overloads cannot compete) and well-typed argument tuples from the typed
corpus, all spellings of one call must give the same result or the same
error class.
"""
import itertools
import re

from hypothesis import strategies as st

from vf import common, stdlib_walk as W
from yaql.language import contexts
from yaql.language import exceptions as yexc
from yaql.language import specs

RULE = ('every registered definition x argument tuples from the typed '
        'corpus x spellings: fully positional; every positional|keyword '
        'split point; all-keyword; every subset of defaulted parameters '
        'omitted, skipped with empty slots, or given explicitly (eager '
        'only); call(name, args, kwargs) (eager only; and, with lazily '
        'evaluated parameters given a variable that holds a number, a '
        'string or a host callable, positional / keyword / call() args / '
        'call() kwargs); function and method '
        'spelling for extension methods; kind rule and documented keyword '
        'names under the real names; the same sweep in contexts created '
        'under the Python and the camelCase naming convention, in one '
        'process, in both orders of creation, with the keyword names '
        'computed by a model of the convention; before the valid spellings, '
        'on the same context, calls of the same shapes that must be refused '
        '(mandatory parameter skipped with an empty slot, unknown keyword); '
        'the conventions sweep repeated under an engine with '
        'limitIterators=2; '
        'non-trivial = >=3 distinct spellings '
        'applicable and the positional baseline succeeded; distinct = '
        'distinct (definition, filling)')
ASSUMPTIONS = [
    'spellings are compared on an isolated clone of the definition; '
    'disagreements that appear only under the real name (overload '
    'competition through per-definition keyword names) are counted, not '
    'judged',
    'for now, random and localtz only acceptance (value vs error class) is '
    'compared; no_kwargs definitions '
    'are exempt from keyword spellings, lazily evaluated parameters from '
    'explicit defaults; lazily evaluated parameters go through call() only '
    'as values (an expression cannot be passed through call()); operator '
    'definitions are exempt from that group: the right side of "." must '
    'be a call and that of "->" is evaluated in another context, so "$v" '
    'is not a spelling of the value there',
    'context objects returned by let/def/with/unpack are compared by the '
    'variables they define',
]

NONDETERMINISTIC = {'now', 'random', 'localtz'}


_LIMIT = [300]


def _engine():
    return common.engine({'yaql.limitIterators': _LIMIT[0],
                          'yaql.memoryQuota': 10 ** 6})


_S = {}


def _ctx(conv=None):
    if ('ctx', conv) not in _S:
        _S['ctx', conv] = W.clone_context(conv=conv)
    return _S['ctx', conv]


# python parameter name -> keyword name given explicitly in the library
# source (specs.parameter(..., alias=...)); read from the source text so
# that the expectation does not depend on the objects under test
def _explicit_aliases():
    if 'aliases' not in _S:
        import glob
        import os
        import yaql
        out = {}
        root = os.path.dirname(yaql.__file__)
        for fn in sorted(glob.glob(os.path.join(root, 'standard_library',
                                                '*.py'))):
            src = open(fn, encoding='utf-8').read()
            for m in re.finditer(
                    r"specs\.parameter\(\s*'(\w+)'[^)]*?alias='(\w+)'", src):
                out[m.group(1)] = m.group(2)
        _S['aliases'] = out
    return _S['aliases']


def model_alias(pyname, conv):
    """the keyword name of a parameter under a naming convention"""
    if pyname in _explicit_aliases():
        return _explicit_aliases()[pyname]
    if conv == 'python':
        return pyname.rstrip('_')
    if conv == 'none':
        return pyname           # no convention: the python name as it is
    return camel(pyname)


def _world(conv):
    """definitions of the context created under a convention, with the
    keyword names replaced by the model's"""
    if ('world', conv) not in _S:
        out = {}
        for d in W.definitions(conv=conv):
            def fix(p):
                if p is None or p.key in ('*', '**'):
                    return p
                return p._replace(alias=model_alias(p.name, conv or 'camel'))
            m = W.Def(d.fd, d.layer, d.ordinal)
            m.clone_name = d.clone_name
            m.params = [fix(p) for p in m.params]
            m.positional = [fix(p) for p in m.positional]
            m.kwonly = [fix(p) for p in m.kwonly]
            out[d.id] = m
        _S['world', conv] = out
    return _S['world', conv]


def camel(name):
    name = name.rstrip('_')
    parts = name.split('_')
    out = parts[0]
    for p in parts[1:]:
        out += p[:1].upper() + p[1:] if p else '_'
    return out


def _norm(v, depth=0):
    if depth > 20:
        return '<deep>'
    if isinstance(v, contexts.ContextBase):
        return ('<context>', sorted((k, _norm(v[k], depth + 1))
                                    for k in v.keys()))
    if isinstance(v, (list, tuple)):
        return [_norm(i, depth + 1) for i in v]
    if isinstance(v, dict):
        return sorted(((repr(k), _norm(w, depth + 1)) for k, w in v.items()),
                      key=lambda p: p[0])
    if isinstance(v, (set, frozenset)):
        return ('<set>', sorted(repr(i) for i in v))
    if isinstance(v, (int, float, str, bool, type(None))):
        return v
    return repr(type(v))


def evaluate(text, binds_fn, conv=None):
    try:
        return ('ok', _norm(W.evaluate(text, binds_fn(), _ctx(conv),
                                       _engine())))
    except Exception as e:   # noqa
        return ('exc', type(e).__name__)


def lit_default(v):
    """YAQL source for a default value, or None if it has no literal"""
    if v is None or isinstance(v, (bool, int, str)) or (
            isinstance(v, float) and v == v):
        try:
            return common.lit(v)
        except ValueError:
            return None
    return None


def spellings(d, fill):
    """list of (label, callable() -> (text, binds)) ; fillers are re-drawn
    from a fresh corpus for every spelling because iterators are one-shot"""
    out = []
    pos_params = list(d.positional)
    nk = not d.no_kwargs

    def base(extra):
        return W.default_call(d, fill, W.corpus(), extra_varargs=extra)

    def build(fn):
        def make():
            c = base(0)
            return fn(c)
        return make
    # 1. positional (with and without varargs extras)
    out.append(('positional', lambda: base(0).render()))
    if d.varargs:
        out.append(('positional+varargs', lambda: base(2).render()))
    first = 1 if d.method_only else 0

    def render(c, positional, kw, as_method=None, skips=()):
        c2 = W.Call(d, positional, kw)
        text, binds = c2.render(as_method=as_method)
        return text, binds
    # 2./3. split points
    if nk and not d.varargs:
        for cut in range(first, len(pos_params)):
            def split(c, cut=cut):
                moved = [(p.alias, f) for p, f in zip(pos_params[cut:],
                                                      c.positional[cut:])]
                return render(c, c.positional[:cut], moved + c.kw)
            out.append(('keyword-from-%d' % cut, build(split)))
            if cut + 1 < len(pos_params):
                def split_rev(c, cut=cut):
                    moved = [(p.alias, f) for p, f in zip(
                        pos_params[cut:], c.positional[cut:])]
                    return render(c, c.positional[:cut], moved[::-1] + c.kw)
                out.append(('keyword-from-%d-reversed' % cut,
                            build(split_rev)))
    # 4. defaults: omitted / skipped / explicit
    defaulted = [i for i, p in enumerate(pos_params) if p.has_default and
                 i >= first]
    eager_lit = {i: lit_default(pos_params[i].default) for i in defaulted
                 if not pos_params[i].lazy and
                 pos_params[i].cls not in ('Keyword', 'StringConstant',
                                           'YaqlExpression', 'MappingRule')}
    subsets = []
    for r in range(1, min(len(defaulted), 3) + 1):
        subsets += list(itertools.combinations(defaulted, r))
    for sub in subsets[:12]:
        sub = set(sub)
        rest_after = [i for i in range(len(pos_params)) if i not in sub]
        trailing = all(i > max(rest_after, default=-1) for i in sub)

        def omit_kw(c, sub=sub):
            # omitted: everything from the first omitted position on goes
            # by keyword
            cut = min(sub)
            kept = [(pos_params[i].alias, c.positional[i])
                    for i in range(cut, len(pos_params)) if i not in sub]
            return render(c, c.positional[:cut], kept + c.kw)

        def skip_slots(c, sub=sub):
            positional = [('src', '') if i in sub else c.positional[i]
                          for i in range(len(pos_params))]
            while positional and positional[-1] == ('src', ''):
                positional.pop()
            return render(c, positional, c.kw)

        def explicit(c, sub=sub):
            positional = [('src', eager_lit[i]) if i in sub
                          else c.positional[i]
                          for i in range(len(pos_params))]
            return render(c, positional, c.kw)
        group = 'defaults%s' % sorted(sub)
        if all(eager_lit.get(i) is not None for i in sub):
            out.append((group + ':explicit', build(explicit)))
        else:
            continue        # no explicit baseline for this subset
        if nk and not d.varargs:
            out.append((group + ':omitted', build(omit_kw)))
        elif trailing and not d.varargs:
            def omit_trailing(c, sub=sub):
                return render(c, [f for i, f in enumerate(c.positional)
                                  if i not in sub], c.kw)
            out.append((group + ':omitted', build(omit_trailing)))
        if not d.varargs:
            out.append((group + ':skipped', build(skip_slots)))
    # 5. extension methods: function and method spelling
    if d.fd.is_method and d.fd.is_function and pos_params:
        out.append(('as-method', lambda: base(0).render(as_method=True)))
        out.append(('as-function', lambda: base(0).render(as_method=False)))
    # 6. call(name, args, kwargs)
    all_eager = all(not p.lazy and p.cls not in (
        'Keyword', 'StringConstant', 'YaqlExpression', 'MappingRule')
        for p in d.visible)
    if all_eager and not d.varargs:
        def via_call(c):
            binds = {}

            def r(f):
                n = 'v%d' % len(binds)
                binds[n] = f[1]
                return '$' + n
            args = [r(f) for f in c.positional]
            kws = ', '.join('%s => %s' % (k, r(f)) for k, f in c.kw)
            if d.method_only and args:
                text = "call('%s', [%s], {%s}, %s)" % (
                    d.clone_name, ', '.join(args[1:]), kws, args[0])
            else:
                text = "call('%s', [%s], {%s})" % (d.clone_name,
                                                   ', '.join(args), kws)
            return text, binds
        if all(f[0] == 'var' for f in base(0).positional):
            out.append(('call()', build(via_call)))

            def via_call_kwargs(c):
                # every visible parameter through the kwargs dictionary
                binds = {}

                def r(f):
                    n = 'v%d' % len(binds)
                    binds[n] = f[1]
                    return '$' + n
                lead = [r(f) for f in c.positional[:first]]
                pairs = [(p.alias, r(f)) for p, f in zip(
                    pos_params[first:], c.positional[first:])]
                pairs += [(k, r(f)) for k, f in c.kw]
                kws = ', '.join('%s => %s' % kv for kv in pairs)
                if d.method_only and lead:
                    return "call('%s', [], {%s}, %s)" % (
                        d.clone_name, kws, lead[0]), binds
                return "call('%s', [], {%s})" % (d.clone_name, kws), binds
            if nk and len(pos_params) > first:
                out.append(('call()-all-kwargs', build(via_call_kwargs)))
    # 7. lazily evaluated parameters given a *value* (a variable holding
    # data): the expression '$v' evaluates to that value every time, and
    # call() passes the value itself - all spellings mean the same
    DATA_ONLY = ('Lambda', 'LambdaMethod', 'Super', 'Delegate')
    lazy_pos = [i for i, p in enumerate(pos_params)
                if p.lazy and p.cls in DATA_ONLY and i >= first]
    others_ok = all(not p.lazy or p.cls in DATA_ONLY for p in d.visible)
    if lazy_pos and others_ok and not d.varargs and not d.kwonly and \
            d.fd.name[:1] != '#':
        def lazy_group(vi, val):
            grp = 'lazydata%d' % vi

            def data_call(c):
                positional = [('var', val) if i in lazy_pos else f
                              for i, f in enumerate(c.positional)]
                return positional

            def as_pos(c):
                return render(c, data_call(c), [])

            def as_kw(c):
                pos = data_call(c)
                cut = min(lazy_pos)
                moved = [(p.alias, f) for p, f in zip(pos_params[cut:],
                                                      pos[cut:])]
                return render(c, pos[:cut], moved)

            def mk_call(kwmode):
                def fn(c):
                    pos = data_call(c)
                    if any(f[0] != 'var' for f in pos):
                        raise ValueError('source-only filler')
                    binds = {}

                    def r(f):
                        n = 'v%d' % len(binds)
                        binds[n] = f[1]
                        return '$' + n
                    cut = min(lazy_pos) if kwmode else len(pos)
                    args = [r(f) for f in pos[:cut]]
                    kws = ', '.join('%s => %s' % (p.alias, r(f))
                                    for p, f in zip(pos_params[cut:],
                                                    pos[cut:]))
                    if d.method_only and args:
                        return "call('%s', [%s], {%s}, %s)" % (
                            d.clone_name, ', '.join(args[1:]), kws,
                            args[0]), binds
                    return "call('%s', [%s], {%s})" % (
                        d.clone_name, ', '.join(args), kws), binds
                return fn
            out.append((grp + ':positional', build(as_pos)))
            if nk:
                out.append((grp + ':keyword', build(as_kw)))
            out.append((grp + ':call()', build(mk_call(False))))
            if nk:
                out.append((grp + ':call()-kwargs', build(mk_call(True))))
        for vi, val in enumerate(LAZY_DATA):
            lazy_group(vi, val)
    # 8. one eager parameter given a value at the edge of its type (a whole
    # float, a boolean, a numeral in a string, null): written as a literal
    # or held by a variable, positional, by keyword or through call() - the
    # call is accepted by all spellings or refused by all of them
    SIMPLE = ('Keyword', 'StringConstant', 'YaqlExpression', 'MappingRule')
    if not d.varargs and not d.kwonly and d.fd.name[:1] != '#' and all(
            not p.lazy and p.cls not in SIMPLE for p in d.visible):
        def near_group(i, vi, val):
            grp = 'near%d-%d' % (i, vi)

            def put(c, filler):
                return [filler if j == i else f
                        for j, f in enumerate(c.positional)]

            def pos_as(kind):
                def fn(c):
                    filler = ('src', common.lit(val)) if kind == 'lit' \
                        else ('var', val)
                    return render(c, put(c, filler), c.kw)
                return fn

            def kw_as(kind):
                def fn(c):
                    filler = ('src', common.lit(val)) if kind == 'lit' \
                        else ('var', val)
                    pos = put(c, filler)
                    moved = [(p.alias, f) for p, f in zip(pos_params[i:],
                                                          pos[i:])]
                    return render(c, pos[:i], moved + c.kw)
                return fn

            def as_call(c):
                pos = put(c, ('var', val))
                if any(f[0] != 'var' for f in pos):
                    raise ValueError('source-only filler')
                binds = {}

                def r(f):
                    n = 'v%d' % len(binds)
                    binds[n] = f[1]
                    return '$' + n
                args = [r(f) for f in pos]
                kws = ', '.join('%s => %s' % (k, r(f)) for k, f in c.kw)
                if d.method_only and args:
                    return "call('%s', [%s], {%s}, %s)" % (
                        d.clone_name, ', '.join(args[1:]), kws,
                        args[0]), binds
                return "call('%s', [%s], {%s})" % (
                    d.clone_name, ', '.join(args), kws), binds
            out.append((grp + ':near-literal', build(pos_as('lit'))))
            out.append((grp + ':near-variable', build(pos_as('var'))))
            if nk:
                out.append((grp + ':near-keyword-literal',
                            build(kw_as('lit'))))
                out.append((grp + ':near-keyword-variable',
                            build(kw_as('var'))))
            out.append((grp + ':near-call()', build(as_call)))
        for i in range(first, len(pos_params)):
            for vi, val in enumerate(NEAR_VALUES):
                near_group(i, vi, val)
    return out


NEAR_VALUES = [2.0, True, '2', None, 2, 0.5]


def _host_callable(*args):
    return 'called'


LAZY_DATA = [7, _host_callable, 'text']


def _refused_calls(run, case, d, fill, conv):
    """calls that are *not* valid spellings - a mandatory parameter skipped
    with an empty slot, a keyword that does not exist - must be refused.
    They run *before* the valid spellings of the same shapes, on the same
    context (the definitions of a context live as long as the context), so
    whatever they leave behind shows up as a disagreement of the valid
    spellings."""
    if d.varargs:
        return True
    pos_params = list(d.positional)
    first = 1 if d.method_only else 0
    for i in range(first, len(pos_params)):
        if pos_params[i].has_default:
            continue
        c = W.default_call(d, fill, W.corpus())
        positional = [('src', '') if j == i else f
                      for j, f in enumerate(c.positional)]
        if positional and positional[-1] == ('src', ''):
            continue        # 'f(1,)' is a grammar error, not a call
        text, binds = W.Call(d, positional, c.kw).render()
        out = evaluate(text, lambda b=binds: b, conv)
        run.count(1, cls='refused-call-before-the-spellings')
        if out[0] == 'ok':
            run.violate('mandatory-parameter-skipped-accepted', case,
                        '%s: %s -> %r' % (d.id, text, out[1]),
                        input_class=d.fd.name + '/skip-mandatory')
            return False
    if not d.no_kwargs and not d.kwargs:
        base = W.default_call(d, fill, W.corpus())
        text, binds = W.Call(d, base.positional, base.kw + [
            ('noSuchKeyword', ('src', '1'))]).render()
        out = evaluate(text, lambda b=binds: b, conv)
        run.count(1, cls='refused-call-before-the-spellings')
        if out[0] == 'ok':
            run.violate('unknown-keyword-accepted', case,
                        '%s: %s -> %r' % (d.id, text, out[1]),
                        input_class=d.fd.name + '/unknown-keyword')
            return False
    return True


def check_def(run, case):
    # (a small iterator limit: the argument list handed to call() is not a
    # collection of the data)
    _LIMIT[0] = case.get('limit', 300)
    try:
        _check_def(run, case)
    finally:
        _LIMIT[0] = 300


def _check_def(run, case):
    conv = case.get('conv')
    if 'order' in case:
        # the order in which the contexts of the two conventions come into
        # being in this process is part of the case
        for c in case['order']:
            W.base_context(conv=c)
    if 'conv' in case:
        defs = _world(conv)
    else:
        defs = {d.id: d for d in W.definitions()}
    d = defs.get(case['def'])
    if d is None:
        run.exclude('definition no longer registered')
        return
    # (now, random, localtz: values differ from call to call; only whether
    # a spelling is accepted is compared)
    vague = d.fd.name in NONDETERMINISTIC
    fill = case.get('fill', 0)
    if not _refused_calls(run, case, d, fill, conv):
        return
    sp = spellings(d, fill)
    results = []
    for label, make in sp:
        try:
            text, binds = make()
        except Exception:   # noqa
            continue
        out = evaluate(text, lambda b=binds: b, conv)
        if vague and out[0] == 'ok':
            out = ('ok', '<some value>')
        results.append((label, text, out))
    by_group = {}
    for label, text, out in results:
        g = label.split(':')[0] if ':' in label else 'args'
        by_group.setdefault(g, []).append((label, text, out))
    # varargs extras form their own group
    base_ok = results and results[0][2][0] == 'ok'
    run.case(case, len(results) >= 3 and base_ok,
             cls=['definition', 'spellings=%d' % min(len(results), 9)] + (
                 ['convention=%s' % (conv or 'default')]
                 if 'conv' in case else []) + [
                 'spelling=' + (l.split(':')[1] if ':' in l else
                                re.sub(r'-?\d+', '', l))
                 for l, _, _ in results])
    # call() finds every registered name: the same call() spelling under
    # the definition's real name must not end in "no such function" when it
    # works under the clone's name (competing overloads may make the
    # result differ, a missing name may not)
    for label, text, out in results:
        if label == 'call()' and out[0] == 'ok':
            real = text.replace("call('%s'" % d.clone_name,
                                "call('%s'" % d.fd.name.replace(
                                    '\\', '\\\\').replace("'", "\\'"), 1)
            spell = [s_ for l_, s_ in sp if l_ == 'call()']
            try:
                _t, binds = spell[0]()
            except Exception:   # noqa
                break
            o2 = evaluate(real, lambda b=binds: b, conv)
            run.count(1, cls='call()-under-the-real-name')
            if o2[0] == 'exc' and o2[1] in (
                    'NoFunctionRegisteredException',
                    'NoMethodRegisteredException'):
                run.violate('call()-does-not-find-registered-name', case,
                            '%s -> %r although %s works' % (real, o2, text),
                            input_class=d.fd.name + '/call()')
                return
            break
    for g, items in by_group.items():
        items = [i for i in items if i[0] != 'positional+varargs']
        if len(items) < 2:
            continue
        ref = items[0]
        for it in items[1:]:
            if it[2] != ref[2]:
                run.violate('spellings-disagree', case,
                            '%s: %s [%s] -> %r but %s [%s] -> %r' % (
                                d.id, ref[1], ref[0], ref[2], it[1], it[0],
                                it[2]),
                            input_class='%s/%s-vs-%s' % (
                                d.fd.name, re.sub(r'[-\[\], \d]+', '',
                                                  ref[0]),
                                re.sub(r'[-\[\], \d]+', '', it[0])))
                return


def _doc_args(fd):
    doc = fd.doc or ''
    return re.findall(r':arg (\[?[A-Za-z_0-9]+\]?):', doc)


def check_names(run, case):
    """keyword names: convention-translated python names (or the explicit
    alias) must be what the documentation publishes"""
    defs = {d.id: d for d in W.definitions()}
    d = defs.get(case['def'])
    if d is None:
        return
    if d.fd.name[:1] in '#*':
        return      # operators have no call syntax, hence no keywords
    doc = [a for a in _doc_args(d.fd) if not a.startswith('[')]
    vis = [p for p in d.positional[(1 if d.fd.is_method else 0):]] + \
        list(d.kwonly)
    run.case(case, bool(doc), cls='keyword-names')
    if len(doc) != len(vis):
        return       # documentation groups or omits parameters: not judged
    for name, p in zip(doc, vis):
        conv = camel(p.name)
        if name != p.alias:
            run.violate('documented-keyword-name-not-accepted', case,
                        '%s documents parameter %r; the definition accepts '
                        '%r (python name %r, convention gives %r)' % (
                            d.fd.name, name, p.alias, p.name, conv),
                        input_class='%s(%s)' % (d.fd.name, name))
            return


def check_kind(run, case):
    """method-only names are not callable as functions and vice versa"""
    name = case['name']
    ds = [d for d in W.definitions() if d.fd.name == name]
    fn = any(d.fd.is_function for d in ds)
    me = any(d.fd.is_method for d in ds)
    run.case(case, fn != me, cls='kind-rule')
    ctx = common.child(common.std_context(delegates=True))
    ctx['$x'] = (1, 2, 3)
    if not re.match(r'^[A-Za-z]\w*$', name):
        return
    if me and not fn:
        for text in ('%s($x)' % name, '%s($x, 1)' % name, '%s()' % name):
            try:
                r = _engine()(text).evaluate(context=ctx)
                run.violate('method-callable-as-function', case,
                            '%s -> %r' % (text, r), input_class=name)
                return
            except yexc.NoFunctionRegisteredException:
                pass
            except Exception as e:   # noqa
                run.violate('method-as-function-wrong-error', case,
                            '%s raised %s' % (text, type(e).__name__),
                            exc=e, input_class=name)
                return
    if fn and not me:
        for text in ('$x.%s()' % name, '$x.%s(1)' % name):
            try:
                r = _engine()(text).evaluate(context=ctx)
                run.violate('function-callable-as-method', case,
                            '%s -> %r' % (text, r), input_class=name)
                return
            except yexc.NoMethodRegisteredException:
                pass
            except Exception as e:   # noqa
                run.violate('function-as-method-wrong-error', case,
                            '%s raised %s' % (text, type(e).__name__),
                            exc=e, input_class=name)
                return


REPLAY = {'def': check_def, 'names': check_names, 'kind': check_kind}


def _shard(run, part, parts, fills):
    jobs = []
    for d in W.definitions():
        for f in range(fills):
            jobs.append({'kind': 'def', 'def': d.id, 'fill': f})
    for c in jobs[part::parts]:
        check_def(run, c)


def _conv_shard(run, order, part, parts, fills):
    # runs in a process in which no context exists yet: the contexts of the
    # two conventions are created in the given order
    for c in order:
        W.base_context(conv=c)
    jobs = []
    for c in order:
        for d in W.definitions(conv=c):
            if d.no_kwargs or d.fd.name[:1] in '#*' or not any(
                    p.key not in ('*', '**') for p in d.visible):
                continue
            for f in range(fills):
                jobs.append({'kind': 'def', 'def': d.id, 'fill': f,
                             'conv': c, 'order': list(order)})
    for c in jobs[part::parts]:
        check_def(run, c)
    # the same definitions under an engine whose iterator limit is smaller
    # than most argument lists
    for c in [dict(j, limit=2) for j in jobs if j['fill'] == 0][part::parts]:
        check_def(run, c)


def run(run):
    full = run.tier == 'thorough'
    _engine()
    # before anything creates a context in this process (shards fork)
    orders = [(None, 'python'), ('python', None), ('python', 'camel'),
              ('camel', 'python'), ('none', None), ('python', 'none')]
    run.shards(_conv_shard, [(o, i, 3, 6 if full else 2)
                             for o in orders for i in range(3)],
               watchdog=120)
    common.std_context(delegates=True)
    for d in W.definitions():
        check_names(run, {'kind': 'names', 'def': d.id})
    for name in sorted({d.fd.name for d in W.definitions()}):
        check_kind(run, {'kind': 'kind', 'name': name})
    run.shards(_shard, [(i, 16, 40 if full else 7) for i in range(16)],
               watchdog=120)

"""C04 - core evaluation semantics follow the language reference.

Typed grammar-based generation of expressions (literals, variables, list/map/
index expressions, member access, method chains with lambdas, let / with /
unpack / def / ->) with static scope tracking so that shadowing, closures,
outer-lambda reads and unbound names are produced on purpose; oracle:
models/refinterp.py.
"""
from hypothesis import strategies as st

from vf import common
from vf.models import refinterp as R

RULE = ('well-formed expressions of depth <=5 (thorough <=6) from a typed '
        'grammar over ints, strings, booleans, lists, records and the input '
        'document, with lambdas (select, where, any, all, selectMany, '
        'takeWhile, aggregate, join), zero-argument lazy operands (and/or/'
        'switch) and the context constructs let/with/unpack/def/->; the '
        'generator tracks the static scope to produce: names bound in one '
        'sibling and read in another, $ read inside zero-argument lambdas '
        'nested in one-argument lambdas, inner lambdas reading outer '
        'elements, def bodies whose free variables are re-bound at the call '
        'site, unbound names, def names under which the library has methods '
        '(len, sum, first, select, where, toList, any); documents are '
        'generated, plus collections mixing records and nested lists of '
        'records under member access; index forms with null defaults and '
        'with maps / lists as keys of map literals (equal maps written in '
        'different key orders); lambdas passed by keyword (toDict, select, '
        'where, aggregate ...) and `?.` on empty receivers; histories of evaluations that are '
        'given no context, '
        'with the document and then with no data at all (`$` unknown); '
        'non-trivial = scope '
        'depth >=2 and (a read whose binder is not the innermost frame, or a '
        'shadowed name, or an unbound name, or a closure call); distinct = '
        'distinct (expression, document)')
ASSUMPTIONS = [
    'when the model predicts an error yaql must raise some exception and '
    'vice versa; exception classes are not compared (the reference says '
    'nothing finer)',
    'results are compared after finalisation (lists for tuples)',
    'delegates mode (lambda(...), $f(...)) is not generated',
]


def _engine():
    return common.engine({'yaql.limitIterators': 2000})


def to_tuple(n):
    if isinstance(n, list):
        return tuple(to_tuple(i) for i in n)
    return n


def canon(x):
    if isinstance(x, (list, tuple)):
        return [canon(i) for i in x]
    if isinstance(x, dict):
        return {k: canon(v) for k, v in x.items()}
    return x


def typed_eq(a, b):
    if isinstance(a, list) and isinstance(b, list):
        return len(a) == len(b) and all(typed_eq(x, y) for x, y in zip(a, b))
    if isinstance(a, dict) and isinstance(b, dict):
        return set(a) == set(b) and all(typed_eq(a[k], b[k]) for k in a)
    return type(a) is type(b) and a == b


def check_program(run, case):
    ast = to_tuple(case['ast'])
    doc = case['doc']
    text = R.render(ast)
    root = R.Frame()
    root.vars['$1'] = doc
    try:
        exp = ('ok', R.force(R.Interp().ev(ast, root)))
    except R.ModelError as e:
        exp = ('err', str(e))
    except RecursionError:
        run.exclude('model recursion limit')
        return
    try:
        got = ('ok', canon(_engine()(text).evaluate(
            data=doc, context=common.child())))
    except RecursionError as e:
        got = ('exc', e)
    except Exception as e:   # noqa
        got = ('exc', e)
    feats = case.get('features', [])
    run.case(case, bool(set(feats) & {'outer-read', 'shadow', 'unbound',
                                      'closure-call', 'zero-arg-dollar'}),
             fp=(text, doc), cls=['program'] + ['has-' + f for f in feats] + [
                 'model-' + exp[0]])
    ic = '+'.join(sorted(feats)) or 'plain'
    if exp[0] == 'ok' and R.has_container_key(exp[1]):
        run.exclude('the result has a list or map as dictionary key (cannot '
                    'be finalised: known finding of C10)')
        return
    if exp[0] == 'err':
        if exp[1] == 'budget':
            run.exclude('model step budget')
            return
        if got[0] == 'ok':
            run.violate('value-where-reference-predicts-error', case,
                        '%s on %r -> %r; reference interpreter: error (%s)'
                        % (text, doc, got[1], exp[1]), input_class=ic)
        return
    if got[0] != 'ok':
        run.violate('error-where-reference-gives-value', case,
                    '%s on %r raised %s: %s; reference interpreter: %r' % (
                        text, doc, type(got[1]).__name__, got[1], exp[1]),
                    exc=got[1], input_class=ic)
    elif not typed_eq(got[1], canon(exp[1])):
        run.violate('result-differs-from-reference', case,
                    '%s on %r -> %r; reference interpreter: %r' % (
                        text, doc, got[1], exp[1]), input_class=ic)


def _ref(ast, doc, bound):
    root = R.Frame()
    if bound:
        root.vars['$1'] = doc
    try:
        return ('ok', R.force(R.Interp().ev(ast, root)))
    except R.ModelError as e:
        return ('err', str(e))


def check_contextless(run, case):
    """evaluations that are given no context (the engine supplies the
    library) in a history: with a document, then with no data at all - `$`
    is then an unknown variable"""
    doc = case['doc']
    steps = [(to_tuple(a), bound) for a, bound in case['steps']]
    run.case(case, any(not b for _, b in steps[1:]),
             cls=['contextless-history'])
    for i, (ast, bound) in enumerate(steps):
        text = R.render(ast)
        try:
            exp = _ref(ast, doc, bound)
        except RecursionError:
            run.exclude('model recursion limit')
            return
        if exp[0] == 'err':
            continue
        try:
            stmt = _engine()(text)
            got = ('ok', canon(stmt.evaluate(data=doc) if bound
                               else stmt.evaluate()))
        except Exception as e:   # noqa
            got = ('exc', e)
        where = 'step %d of %d (%s)' % (i + 1, len(steps), 'with the '
                                        'document' if bound else 'no data')
        if got[0] != 'ok':
            run.violate('error-where-reference-gives-value', case,
                        '%s: %s raised %s: %s; reference interpreter: %r' % (
                            where, text, type(got[1]).__name__, got[1],
                            exp[1]), exc=got[1], input_class='contextless')
            return
        if not typed_eq(got[1], canon(exp[1])):
            run.violate('result-differs-from-reference', case,
                        '%s: %s -> %r; reference interpreter: %r' % (
                            where, text, got[1], exp[1]),
                        input_class='contextless')
            return


REPLAY = {'program': check_program, 'contextless': check_contextless}

# --------------------------------------------------------------------------
# generator

# (besides ordinary names: names of hidden/injected parameters and of the
# library's own python parameters, which a careless signature could shadow)
NAMES = ['x', 'y', 'v', 'e', 'x', 'y', 'context', 'engine', 'args', 'kwargs',
         'self', 'name', 'receiver', 'func', 'value', 'yaql_interface',
         'sequence', 'collection']
# (names of def'd functions: also names under which the library has
# *methods* - defining a function does not touch methods of that name)
FNAMES = ['f', 'g', 'len', 'sum', 'first', 'select', 'where', 'toList',
          'any', 'f', 'g']


class Scope:
    def __init__(self, named=None, pos=None, funcs=None, depth=0):
        self.named = dict(named or {})     # name -> (type, frame depth)
        self.pos = dict(pos or {})         # index -> (type, frame depth)
        self.funcs = dict(funcs or {})     # fname -> (argtype, rettype)
        self.depth = depth

    def push(self):
        return Scope(self.named, self.pos, self.funcs, self.depth + 1)

    def with_pos(self, types):
        s = self.push()
        for i, t in enumerate(types, 1):
            s.pos[i] = (t, s.depth)
        return s

    def with_named(self, pairs):
        s = self.push()
        for name, t in pairs:
            s.named[name] = (t, s.depth)
        return s


class Gen:
    def __init__(self, draw, max_depth):
        self.draw = draw
        self.max_depth = max_depth
        self.features = set()

    def pick(self, xs):
        return self.draw(st.sampled_from(xs))

    def chance(self, n):
        return self.draw(st.integers(0, n - 1)) == 0

    def vars_of(self, sc, typ):
        out = []
        for name, (t, d) in sc.named.items():
            if t == typ:
                out.append(('$' + name, d))
        for i, (t, d) in sc.pos.items():
            if t == typ:
                out.append(('$%d' % i, d))
                if i == 1:
                    out.append(('$', d))
        return out

    def read(self, sc, typ):
        vs = self.vars_of(sc, typ)
        if not vs:
            return None
        name, d = self.pick(vs)
        if d < sc.depth:
            self.features.add('outer-read')
        return ('var', name)

    def gen(self, typ, sc, d):
        return getattr(self, 'g_' + typ)(sc, d)

    # ---- binders (any result type) -------------------------------------
    def binder(self, typ, sc, d):
        kind = self.pick(['let', 'let', 'letpos', 'with', 'unpack',
                          'unpackpos', 'def', 'defclosure'])
        if kind == 'let':
            names = self.draw(st.lists(st.sampled_from(NAMES), min_size=1,
                                       max_size=2, unique=True))
            pairs, binds = [], []
            for n in names:
                t = self.pick(['int', 'int', 'ilist', 'str', 'doc'])
                if t == 'doc':
                    v = self.read(sc, 'doc')
                    if v is None:
                        t, v = 'int', self.g_int(sc, d + 1)
                else:
                    v = self.gen(t, sc, d + 1)
                    if t == 'ilist':
                        # a lazily evaluated sequence is one-shot; bind a
                        # materialised list so that it can be read twice
                        v = ('m', v, 'toList', ())
                if n in sc.named:
                    self.features.add('shadow')
                pairs.append((n, t))
                binds.append((n, v))
            body = self.gen(typ, sc.with_named(pairs), d + 1)
            return ('let', (), tuple(binds), body)
        if kind == 'letpos':
            vals = [self.g_int(sc, d + 1) for _ in range(
                self.draw(st.integers(1, 2)))]
            if sc.pos:
                self.features.add('shadow')
            body = self.gen(typ, sc.with_pos(['int'] * len(vals)), d + 1)
            return ('let', tuple(vals), (), body)
        if kind == 'with':
            vals = [self.g_int(sc, d + 1) for _ in range(
                self.draw(st.integers(1, 2)))]
            if self.chance(6):
                vals = [('int', i) for i in range(
                    self.draw(st.integers(9, 12)))]
            if sc.pos:
                self.features.add('shadow')
            body = self.gen(typ, sc.with_pos(['int'] * len(vals)), d + 1)
            return ('with', tuple(vals), body)
        if kind == 'unpack':
            names = self.draw(st.lists(st.sampled_from(NAMES), min_size=1,
                                       max_size=2, unique=True))
            n = len(names)
            if self.chance(8):
                n += 1                  # length mismatch: an error
            seq = ('list', tuple(self.g_int(sc, d + 1) for _ in range(n)))
            for nm in names:
                if nm in sc.named:
                    self.features.add('shadow')
            body = self.gen(typ, sc.with_named([(nm, 'int')
                                                for nm in names]), d + 1)
            return ('unpack', seq, tuple(names), body)
        if kind == 'unpackpos':
            n = self.draw(st.integers(1, 3))
            seq = ('list', tuple(self.g_int(sc, d + 1) for _ in range(n)))
            body = self.gen(typ, sc.with_pos(['int'] * n), d + 1)
            return ('unpack', seq, (), body)
        fname = self.pick(FNAMES)
        body_sc = sc.with_pos(['int'])
        if kind == 'defclosure' and self.vars_of(sc, 'int'):
            # the body reads a free variable; the rest re-binds it before
            # the call (lexical vs dynamic scoping)
            free = self.pick([v for v in self.vars_of(sc, 'int')
                              if v[0].startswith('$') and
                              v[0][1:] in sc.named] or
                             self.vars_of(sc, 'int'))
            fbody = ('bin', self.pick(['+', '-', '*']), ('var', free[0]),
                     ('var', '$'))
            rest_sc = sc.push()
            rest_sc.funcs[fname] = ('int', 'int')
            self.features.add('closure-call')
            call = ('callf', fname, (self.g_int(rest_sc, d + 2),))
            if free[0][1:] in sc.named:
                rebind = ('let', (), ((free[0][1:],
                                       self.g_int(rest_sc, d + 2)),), call)
            else:
                rebind = ('let', (self.g_int(rest_sc, d + 2),), (), call)
            rest = rebind if typ == 'int' else self.gen(typ, rest_sc, d + 1)
            if typ == 'ilist':
                rest = ('list', (rebind,))
            return ('def', fname, fbody, rest)
        if self.chance(4):
            # recursion bounded by a decreasing argument
            rec_call = ('callf', fname, (('bin', '-', ('var', '$'),
                                          ('int', 1)),))
            # the argument is read before or after the recursive call
            step = self.pick([('bin', '+', ('var', '$'), rec_call),
                              ('bin', '+', rec_call, ('var', '$')),
                              ('bin', '*', rec_call, ('bin', '+', ('var', '$'),
                                                      ('int', 1)))])
            fbody = ('switch', (
                (('bin', '<=', ('var', '$'), ('int', 0)), ('int', 1)),
                (('bool', True), step)))
            self.features.add('closure-call')
            rest = ('callf', fname, (('int', self.draw(st.integers(0, 4))),))
            if typ != 'int':
                rest = self.gen(typ, sc, d + 1)
            return ('def', fname, fbody, rest)
        fbody = self.g_int(body_sc, d + 1)
        rest_sc = sc.push()
        rest_sc.funcs[fname] = ('int', 'int')
        return ('def', fname, fbody, self.gen(typ, rest_sc, d + 1))

    # ---- ints ------------------------------------------------------------
    def g_int(self, sc, d):
        if d >= self.max_depth:
            v = self.read(sc, 'int')
            return v if v is not None and self.chance(2) else (
                'int', self.draw(st.integers(-3, 5)))
        k = self.draw(st.integers(0, 19))
        if k <= 2:
            return ('int', self.draw(st.integers(-3, 5)))
        if k <= 6:
            v = self.read(sc, 'int')
            if v is not None:
                return v
            return ('int', self.draw(st.integers(-3, 5)))
        if k == 7:
            if self.chance(3):
                self.features.add('unbound')
                return ('var', '$' + self.pick(['nope', 'u', '9']))
            return ('int', 1)
        if k <= 9:
            return ('bin', self.pick(['+', '-', '*']), self.g_int(sc, d + 1),
                    self.g_int(sc, d + 1))
        if k == 10:
            return ('m', self.g_ilist(sc, d + 1), self.pick(
                ['len', 'len', 'sum', 'first']), ())
        if k == 11:
            return ('idx', ('m', self.g_ilist(sc, d + 1), 'toList', ()),
                    ('int', self.draw(st.integers(-2, 3))))
        if k == 12:
            rec = self.g_rec(sc, d + 1)
            if self.chance(2):
                return ('dot', rec, 'a')
            return ('dot', ('dot', rec, 'b'), 'c')
        if k == 13:
            doc = self.read(sc, 'doc')
            if doc is not None:
                return self.pick([('dot', doc, 'n'),
                                  ('dot', ('dot', ('dot', doc, 'nested'),
                                           'k'), 'j'),
                                  ('qdot', ('qdot', doc, 'absent'), 'j'),
                                  ('idxd', doc, ('str', 'zz'), ('int', 7)),
                                  ('idx', doc, ('str', 'n'))])
            return ('int', 2)
        if k in (14, 15, 16):
            return self.binder('int', sc, d)
        if k == 17:
            if sc.funcs:
                fname = self.pick(sorted(sc.funcs))
                self.features.add('closure-call')
                return ('callf', fname, (self.g_int(sc, d + 1),))
            return self.binder('int', sc, d)
        if k == 18:
            lam = ('bin', self.pick(['+', '*', '-']), ('var', '$1'),
                   ('var', '$2'))
            if self.chance(2):
                lam = ('bin', '+', lam, self.g_int(
                    sc.with_pos(['int', 'int']), d + 2))
            return ('m', self.g_ilist(sc, d + 1), 'aggregate',
                    (lam, self.g_int(sc, d + 1)))
        if self.vars_of(sc, 'int') and sc.pos:
            self.features.add('zero-arg-dollar')
        return ('switch', ((self.g_bool(sc, d + 1), self.g_int(sc, d + 1)),
                           (('bool', True), self.g_int(sc, d + 1))))

    def g_bool(self, sc, d):
        if d >= self.max_depth:
            return ('bool', self.draw(st.booleans()))
        k = self.draw(st.integers(0, 9))
        if k <= 4:
            return ('bin', self.pick(['<', '>', '=', '!=', '<=', '>=']),
                    self.g_int(sc, d + 1), self.g_int(sc, d + 1))
        if k == 5:
            return ('not', self.g_bool(sc, d + 1))
        if k <= 7:
            if sc.pos:
                self.features.add('zero-arg-dollar')
            return (self.pick(['and', 'or']), self.g_bool(sc, d + 1),
                    self.g_bool(sc, d + 1))
        if k == 8:
            return ('m', self.g_ilist(sc, d + 1), self.pick(['any', 'all']),
                    (self.g_bool(sc.with_pos(['int']), d + 1),))
        return ('bool', self.draw(st.booleans()))

    def g_ilist(self, sc, d):
        if d >= self.max_depth:
            return ('list', tuple(('int', self.draw(st.integers(-2, 4)))
                                  for _ in range(self.draw(
                                      st.integers(0, 3)))))
        k = self.draw(st.integers(0, 13))
        if k <= 2:
            return ('list', tuple(self.g_int(sc, d + 1) for _ in range(
                self.draw(st.integers(0, 3)))))
        if k == 3:
            v = self.read(sc, 'ilist')
            if v is not None:
                return v
            doc = self.read(sc, 'doc')
            if doc is not None:
                return ('dot', doc, 'items')
            return ('list', (('int', 1), ('int', 2)))
        if k == 4:
            doc = self.read(sc, 'doc')
            if doc is not None:
                return self.pick([('dot', doc, 'items'),
                                  ('dot', ('dot', doc, 'recs'), 'a'),
                                  ('dot', ('dot', ('dot', doc, 'recs'), 'b'),
                                   'c')])
            return ('list', (('int', 3),))
        if k <= 6:
            return ('m', self.g_ilist(sc, d + 1), 'select',
                    (self.g_int(sc.with_pos(['int']), d + 1),))
        if k == 7:
            return ('m', self.g_ilist(sc, d + 1), self.pick(
                ['where', 'takeWhile']),
                (self.g_bool(sc.with_pos(['int']), d + 1),))
        if k == 8:
            inner = sc.with_pos(['int'])
            body = self.pick([lambda: self.g_ilist(inner, d + 1),
                              lambda: self.g_int(inner, d + 1)])()
            return ('m', self.g_ilist(sc, d + 1), 'selectMany', (body,))
        if k == 9:
            dl = self.g_dlist(sc, d + 1)
            return self.pick([('dot', dl, 'a'),
                              ('dot', ('dot', dl, 'b'), 'c'),
                              ('m', dl, 'select', (('dot', ('var', '$'),
                                                    'a'),))])
        if k == 10:
            two = sc.with_pos(['int', 'int'])
            return ('m', self.g_ilist(sc, d + 1), 'join', (
                self.g_ilist(sc, d + 1),
                ('bin', self.pick(['<', '=', '>']), ('var', '$1'),
                 ('var', '$2')),
                self.g_int(two, d + 1)))
        if k == 11:
            return ('m', self.g_ilist(sc, d + 1), 'toList', ())
        if k == 12:
            return ('bin', '+', self.g_ilist(sc, d + 1),
                    self.g_ilist(sc, d + 1))
        return self.binder('ilist', sc, d)

    def g_dlist(self, sc, d):
        doc = self.read(sc, 'doc')
        k = self.draw(st.integers(0, 3))
        if doc is not None and k <= 1:
            base = ('dot', doc, 'recs')
        else:
            base = ('list', tuple(self.g_rec_lit(sc, d + 1) for _ in range(
                self.draw(st.integers(0, 2)))))
        if k == 2 and d < self.max_depth:
            return ('m', base, 'where', (
                ('bin', self.pick(['<', '>', '=']),
                 ('dot', ('var', '$'), 'a'),
                 self.g_int(sc.with_pos(['rec']), d + 1)),))
        return base

    def g_rec_lit(self, sc, d):
        return ('map', ((('kw', 'a'), self.g_int(sc, d + 1)),
                        (('kw', 'b'), ('map', ((('str', 'c'),
                                                self.g_int(sc, d + 1)),)))))

    def g_rec(self, sc, d):
        v = self.read(sc, 'rec')
        if v is not None and self.chance(2):
            return v
        if self.chance(3):
            return ('m', self.g_dlist(sc, d + 1), 'first', ())
        if self.chance(3):
            return ('idx', ('m', self.g_dlist(sc, d + 1), 'toList', ()),
                    ('int', 0))
        return self.g_rec_lit(sc, d)

    def g_str(self, sc, d):
        k = self.draw(st.integers(0, 5))
        if k == 0:
            return ('kw', self.pick(['foo', 'Bar', 'a1']))
        if k == 1:
            doc = self.read(sc, 'doc')
            if doc is not None:
                return ('dot', doc, 'name')
        if k == 2 and d < self.max_depth:
            return ('bin', '+', self.g_str(sc, d + 1), self.g_str(sc, d + 1))
        v = self.read(sc, 'str')
        if v is not None and k == 3:
            return v
        return ('str', self.pick(['s', '', 'it\'s', 'x y']))

    def g_doc(self, sc, d):
        v = self.read(sc, 'doc')
        return v if v is not None else ('null',)


recs = st.lists(st.fixed_dictionaries({
    'a': st.integers(-2, 4),
    'b': st.fixed_dictionaries({'c': st.integers(-2, 4)})}), max_size=3)
docs = st.fixed_dictionaries({
    'n': st.integers(-3, 5), 'items': st.lists(st.integers(-2, 4),
                                               max_size=4),
    'recs': recs, 'name': st.sampled_from(['nm', '', 'Z']),
    'nested': st.fixed_dictionaries({'k': st.fixed_dictionaries({
        'j': st.integers(0, 3)})})})


def programs(max_depth):
    @st.composite
    def prog(draw):
        g = Gen(draw, max_depth)
        sc = Scope(pos={1: ('doc', 0)})
        typ = draw(st.sampled_from(['int', 'int', 'ilist', 'bool', 'ilist']))
        shape = draw(st.integers(0, 9))
        if shape <= 4:
            # keep the document reachable inside lambdas
            inner = sc.with_named([('d', 'doc')])
            ast = ('let', (), (('d', ('var', '$')),), g.gen(typ, inner, 1))
        elif shape == 5:
            # one closure called with different numbers of arguments
            g.features.add('closure-call')
            inner = sc.push()
            body = draw(st.sampled_from([
                ('list', (('var', '$1'), ('var', '$2'))),
                ('list', (('var', '$2'), ('var', '$'), ('var', '$3'))),
                ('list', (('var', '$9'), ('var', '$10'), ('var', '$11'),
                          ('var', '$1'))),
                ('list', (('var', '$8'), ('var', '$12'), ('var', '$10')))]))
            calls = []
            many = body[1][0][1] in ('$9', '$8')
            for _ in range(draw(st.integers(2, 3))):
                n_args = draw(st.integers(8, 13)) if many else \
                    draw(st.integers(0, 3))
                calls.append(('callf', 'h', tuple(
                    ('int', draw(st.integers(-3, 30))) if many else
                    g.g_int(inner, 2) for _ in range(n_args))))
            ast = ('def', 'h', body, ('list', tuple(calls) + (
                g.gen(typ, inner, 2),)))
        else:
            ast = g.gen(typ, sc, 0)
        return {'kind': 'program', 'ast': ast, 'doc': draw(docs),
                'features': sorted(g.features)}
    return prog()


UNBOUND = [
    ('var', '$'), ('list', (('var', '$'), ('var', '$1'))),
    ('bin', '=', ('var', '$'), ('null',)) if False else ('var', '$1'),
    ('let', (), (('x', ('int', 1)),), ('list', (('var', '$x'),
                                                ('var', '$')))),
    ('m', ('list', (('int', 1), ('int', 2))), 'select', (
        ('list', (('var', '$'), ('var', '$nothing'))),)),
    ('with', (('int', 7),), ('list', (('var', '$'), ('var', '$1')))),
]


def contextless_cases(max_depth):
    p = programs(max_depth)

    @st.composite
    def hist(draw):
        steps = []
        for _ in range(draw(st.integers(1, 3))):
            if draw(st.booleans()):
                steps.append([draw(p)['ast'], True])
            else:
                steps.append([draw(st.sampled_from(UNBOUND)), draw(
                    st.booleans())])
        steps.append([draw(st.sampled_from(UNBOUND)), False])
        return {'kind': 'contextless', 'doc': draw(docs), 'steps': steps}
    return hist()


# member access over collections that mix records and (nested) lists of
# records: `.name` maps over the elements, whatever shape each one has
_rec = st.fixed_dictionaries({'a': st.integers(-2, 4), 'b': st.fixed_dictionaries(
    {'c': st.integers(-2, 4)})})
_mixed = st.lists(st.recursive(_rec, lambda ch: st.lists(ch, max_size=3),
                               max_leaves=5), max_size=4)
MIXED_ASTS = [
    ('dot', ('dot', ('var', '$'), 'mixed'), 'a'),
    ('dot', ('dot', ('dot', ('var', '$'), 'mixed'), 'b'), 'c'),
    ('dot', ('m', ('dot', ('var', '$'), 'mixed'), 'where',
             (('bool', True),)), 'a'),
    ('dot', ('dot', ('dot', ('var', '$'), 'groups'), 'mixed'), 'a'),
    ('m', ('dot', ('var', '$'), 'mixed'), 'select',
     (('dot', ('var', '$'), 'a'),)),
    ('let', (), (('d', ('dot', ('var', '$'), 'mixed')),),
     ('list', (('dot', ('var', '$d'), 'a'), ('dot', ('var', '$d'), 'b')))),
]


# index forms: null defaults, maps and lists as keys of map literals
_M1 = ('map', ((('kw', 'a'), ('int', 1)), (('kw', 'b'), ('int', 2))))
_M2 = ('map', ((('kw', 'b'), ('int', 2)), (('kw', 'a'), ('int', 1))))
_M3 = ('map', ((('kw', 'a'), ('int', 1)), (('kw', 'b'), ('int', 3))))
INDEX_ASTS = [
    ('idxd', _M1, ('str', 'zz'), ('null',)),
    ('idxd', _M1, ('kw', 'zz'), ('var', '$nothing')),
    ('idxd', _M1, ('kw', 'a'), ('null',)),
    ('idxd', ('dot', ('var', '$'), 'rec'), ('str', 'zz'),
     ('dot', ('var', '$'), 'none')),
    ('m', ('dot', ('var', '$'), 'mixed'), 'select',
     (('idxd', ('var', '$'), ('str', 'zz'), ('null',)),)),
    ('idx', ('map', ((_M1, ('str', 'hit')),)), _M2),
    ('idxd', ('map', ((_M1, ('str', 'hit')),)), _M3, ('str', 'miss')),
    ('list', (('idx', ('map', ((_M1, ('int', 1)), (_M2, ('int', 2)))), _M1),
              ('idx', ('map', ((_M1, ('int', 1)), (_M2, ('int', 2)))), _M2))),
    ('list', (('idx', ('map', ((_M1, ('int', 1)), (_M3, ('int', 2)))), _M2),
              ('idxd', ('map', ((_M1, ('int', 1)), (_M3, ('int', 2)))), _M3,
               ('int', 0)))),
    ('idx', ('map', ((('idx', ('dot', ('var', '$'), 'pair'), ('int', 0)),
                      ('str', 'hit')),)),
     ('idx', ('dot', ('var', '$'), 'pair'), ('int', 1))),
    ('idx', ('map', ((('list', (('int', 1), ('int', 2))), ('str', 'L')),)),
     ('list', (('int', 1), ('int', 2)))),
    ('idxd', ('map', ((('list', (('int', 1), _M1)), ('str', 'L')),)),
     ('list', (('int', 1), _M2)), ('null',)),
]


# lambdas passed by keyword (the names are the convention-translated python
# names, several of them multi-word) and `?.` on empty / zero receivers
_ITEMS = ('dot', ('var', '$'), 'items')
KEYWORD_ASTS = [
    ('m', _ITEMS, 'toDict', (('var', '$'), ('bin', '*', ('var', '$'),
                                            ('int', 10))),
     (None, 'valueSelector')),
    ('m', _ITEMS, 'toDict', (('bin', '+', ('var', '$'), ('int', 1)),
                             ('list', (('var', '$'), ('var', '$1')))),
     ('keySelector', 'valueSelector')),
    ('m', _ITEMS, 'toDict', (('var', '$'), ('bin', '+', ('var', '$'),
                                            ('dot', ('var', '$d'), 'n'))),
     ('keySelector', 'valueSelector')),
    ('m', _ITEMS, 'select', (('bin', '*', ('var', '$'), ('int', 2)),),
     ('selector',)),
    ('m', _ITEMS, 'where', (('bin', '>', ('var', '$'), ('int', 0)),),
     ('predicate',)),
    ('m', _ITEMS, 'aggregate', (('bin', '+', ('var', '$1'), ('var', '$2')),
                                ('int', 0)), ('selector', 'seed')),
    ('m', _ITEMS, 'selectMany', (('list', (('var', '$'), ('var', '$'))),),
     ('selector',)),
    ('m', _ITEMS, 'takeWhile', (('bin', '<', ('var', '$'), ('int', 3)),),
     ('predicate',)),
    # ?. on receivers that are empty or zero but not null
    ('qm', ('dot', ('var', '$'), 'empty'), 'len', ()),
    ('qm', _ITEMS, 'len', ()),
    ('qdot', ('dot', ('var', '$'), 'empty'), 'a'),
    ('m', ('list', (('list', ()), _ITEMS, ('null',))), 'select',
     (('qm', ('var', '$'), 'len', ()),)),
    ('qm', ('dot', ('var', '$'), 'none'), 'len', ()),
    ('qm', ('dot', ('var', '$'), 'empty'), 'toList', ()),
    ('qm', ('dot', ('var', '$'), 'empty'), 'select', (('var', '$'),)),
]


def keyword_cases():
    return st.builds(
        lambda a, items, n: {
            'kind': 'program',
            'ast': ('let', (), (('d', ('var', '$')),), a),
            'features': ['shadow', 'outer-read'],
            'doc': {'items': items, 'n': n, 'empty': [], 'none': None}},
        st.sampled_from(KEYWORD_ASTS),
        st.lists(st.integers(-2, 4), max_size=4, unique=True),
        st.integers(-3, 5))


def index_cases():
    return st.builds(
        lambda a, m, x, y: {
            'kind': 'program', 'ast': a, 'features': ['shadow'],
            'doc': {'mixed': [r for r in m if isinstance(r, dict)],
                    'rec': {'a': x}, 'none': None,
                    'pair': [{'a': x, 'b': y}, {'b': y, 'a': x}]}},
        st.sampled_from(INDEX_ASTS), _mixed, st.integers(0, 2),
        st.integers(0, 2))


def mixed_cases():
    return st.builds(
        lambda a, m, g: {'kind': 'program', 'ast': a, 'features': ['shadow'],
                         'doc': {'mixed': m, 'groups': [{'mixed': x}
                                                        for x in g]}},
        st.sampled_from(MIXED_ASTS), _mixed, st.lists(_mixed, max_size=2))


def _shard(run, n, depth, shard):
    run.hyp('programs', programs(depth), lambda c: check_program(run, c), n,
            shard=shard)
    run.hyp('mixed-collections', mixed_cases(),
            lambda c: check_program(run, c), max(n // 10, 5), shard=shard)
    run.hyp('keyword-lambdas-and-elvis', keyword_cases(),
            lambda c: check_program(run, c), max(n // 10, 5), shard=shard)
    run.hyp('index-forms', index_cases(),
            lambda c: check_program(run, c), max(n // 12, 5), shard=shard)
    run.hyp('contextless', contextless_cases(3),
            lambda c: check_contextless(run, c), max(n // 10, 5),
            shard=shard)


FIXED = [
    # hand-written dangerous shapes (text is rendered from the AST)
    ('let', (), (('x', ('int', 1)),), ('list', (
        ('let', (), (('x', ('int', 2)),), ('var', '$x')), ('var', '$x')))),
    ('list', (('let', (), (('y', ('int', 5)),), ('var', '$y')),
              ('var', '$y'))),
    ('let', (), (('v', ('int', 1)),), ('def', 'f', (
        'bin', '+', ('var', '$v'), ('var', '$')), ('let', (), (
            ('v', ('int', 100)),), ('callf', 'f', (('int', 1),))))),
    ('m', ('list', (('int', 1), ('int', 2))), 'select', (
        ('m', ('list', (('int', 10), ('int', 20))), 'select', (
            ('bin', '+', ('var', '$'), ('var', '$1')),)),)),
    ('m', ('list', (('int', 1), ('int', 2))), 'select', (
        ('let', (), (('e', ('var', '$')),), ('m', ('list', (
            ('int', 10),)), 'select', (('bin', '+', ('var', '$e'),
                                        ('var', '$')),))),)),
    ('m', ('list', (('int', 0), ('int', 3))), 'where', (
        ('and', ('bin', '>', ('var', '$'), ('int', 1)),
         ('bin', '<', ('var', '$'), ('int', 5))),)),
    ('m', ('list', (('int', 1), ('int', 2))), 'aggregate', (
        ('bin', '+', ('var', '$'), ('var', '$2')), ('int', 0))),
    ('unpack', ('list', (('int', 1), ('int', 2))), (), (
        'list', (('var', '$1'), ('var', '$2'), ('var', '$3')))),
    ('with', (('int', 7),), ('m', ('list', (('int', 1),)), 'select', (
        ('list', (('var', '$'), ('var', '$1'), ('var', '$2'))),))),
    ('var', '$nothing'),
    ('def', 'h', ('list', (('var', '$1'), ('var', '$2'))), ('list', (
        ('callf', 'h', (('int', 1), ('int', 2))),
        ('callf', 'h', (('int', 3),))))),
    ('def', 'f', ('switch', (
        (('bin', '<=', ('var', '$'), ('int', 1)), ('int', 1)),
        (('bool', True), ('bin', '*', ('callf', 'f', (
            ('bin', '-', ('var', '$'), ('int', 1)),)), ('var', '$'))))),
     ('callf', 'f', (('int', 5),))),
    ('dot', ('dot', ('var', '$'), 'recs'), 'a'),
]


def run(run):
    full = run.tier == 'thorough'
    _engine()
    common.std_context()
    doc0 = {'n': 2, 'items': [1, 2], 'recs': [{'a': 1, 'b': {'c': 2}}],
            'name': 'nm', 'nested': {'k': {'j': 1}}}
    for ast in FIXED:
        check_program(run, {'kind': 'program', 'ast': ast, 'doc': doc0,
                            'features': ['shadow', 'outer-read']})
    k = 16
    run.shards(_shard, [((80000 if full else 4000) // k,
                         6 if full else 5, i) for i in range(k)])

"""C15 - scalar operators form a consistent arithmetic and ordering.

All pairs of a boundary-rich corpus under every binary scalar operator (and
all values under the unary ones) against models/scalarmodel.py, plus law
checks evaluated through yaql itself.
"""
import itertools

from hypothesis import strategies as st

from vf import common
from vf.models import scalarmodel as M
from yaql.language import exceptions as yexc

RULE = ('all ordered pairs of the scalar corpus under each of 15 binary '
        'operators, bound as variables and (where printable) written as '
        'literals; all corpus values under 3 unary operators; law checks '
        '(a>b iff b<a, <= iff < or =, trichotomy, a=(a/b)*b+(a mod b), '
        'transitivity) on pairs/triples; thorough adds Hypothesis-drawn '
        'arbitrary ints/floats/strings. non-trivial = not (same kind and both '
        'small ordinary values); distinct = distinct (operator, operands, '
        'form)')
ASSUMPTIONS = [
    'NaN and infinities are outside the property\'s corpus and are not '
    'generated as operands',
    'results are compared by value, python type and repr (so -0.0/0.0 and '
    'int/float/bool are told apart)',
    'string repetition is compared exactly up to 100 result characters; '
    'above 40000 predicted characters MemoryQuotaExceededException is '
    'required under memoryQuota=20000; in between it is not judged',
]

BIN = ['+', '-', '*', '/', 'mod', '<', '<=', '>', '>=', '=', '!=', 'and', 'or',
       'in']
UN = ['+', '-', 'not']
ORDINARY = {1, 2, 'a', 'ab', 0.5, 1.5}

CORPUS = [None, True, False,
          0, 1, -1, 2, -2, 7, -500, 2 ** 31 - 1, 2 ** 31 + 1, -(2 ** 31),
          2 ** 63 - 1, 2 ** 63 + 1, -(2 ** 63) - 1, 10 ** 40, -(10 ** 40),
          # operands that can be written down (fewer than 4300 digits) whose
          # products cannot be rendered in decimal by the interpreter
          10 ** 2200 + 7, -(10 ** 2300) + 1,
          0.0, -0.0, 0.5, -0.5, 1.5, -1.5, 1e-300, 1e300, -1e300,
          float(2 ** 53), float(2 ** 53 + 2), 2 ** 53 + 1,
          '', 'a', 'A', 'ab', 'b', 'é', '\U0001d4b3', '10', 'a b',
          # multi-code-point strings: decomposed spellings, look-alikes
          # under case folding / normalisation / trimming
          'e\u0301', 'f', 'e', '\u1e9b\u0323', 'ß', 'ss', ' a', 'a ',
          'a\x00', '\ufb01', 'fi']

QUOTA = 20000
ENGINE_OPTS = {'yaql.memoryQuota': QUOTA}


def _engine():
    return common.engine(ENGINE_OPTS)


def _ctx():
    return common.child()


def _same(x, y):
    if type(x) is int and type(y) is int:
        return x == y       # (no decimal rendering: any magnitude)
    return type(x) is type(y) and repr(x) == repr(y)


class _R:
    """repr() that survives integers beyond the int/str conversion limit"""

    def __init__(self, v):
        self.v = v

    def __repr__(self):
        v = self.v
        if type(v) is int and v.bit_length() > 12000:
            return '<int of %d bits, ...%d>' % (v.bit_length(), v % 10 ** 6)
        return repr(v)


def _outcome(text, binds):
    ctx = _ctx()
    for k, v in binds.items():
        ctx['$' + k] = v
    try:
        return ('ok', _engine()(text).evaluate(context=ctx))
    except Exception as e:    # noqa
        return ('exc', e)


def _judge(run, case, clause_prefix, expected, got, desc):
    if expected[0] == 'rep':
        s, n = expected[1], expected[2]
        chars = len(s) * max(n, 0)
        if chars <= 100 and abs(n) > 10 ** 9:
            run.exclude('empty string repeated more than 10**9 times not '
                        'judged')
            return
        if chars <= 100:
            expected = ('ok', s * n)
        elif chars > 2 * QUOTA:
            expected = ('exc', 'MemoryQuotaExceededException')
        else:
            run.exclude('repetition between 100 and 2*quota chars not judged')
            return
    if expected[0] == 'ok':
        if got[0] != 'ok':
            run.violate(clause_prefix + '-raises-instead-of-value', case,
                        '%s: expected %r, got %s: %s' % (
                            desc, _R(expected[1]), type(got[1]).__name__,
                            got[1]),
                        exc=got[1], input_class=case.get('class'))
        elif not _same(expected[1], got[1]):
            run.violate(clause_prefix + '-wrong-value', case,
                        '%s: expected %r (%s), got %r (%s)' % (
                            desc, _R(expected[1]), type(expected[1]).__name__,
                            _R(got[1]), type(got[1]).__name__),
                        input_class=case.get('class'))
    else:
        if got[0] == 'ok':
            run.violate(clause_prefix + '-value-instead-of-' + expected[1],
                        case, '%s: expected %s, got value %r' % (
                            desc, expected[1], _R(got[1])),
                        input_class=case.get('class'))
        elif type(got[1]).__name__ != expected[1]:
            run.violate(clause_prefix + '-wrong-exception', case,
                        '%s: expected %s, got %s: %s' % (
                            desc, expected[1], type(got[1]).__name__, got[1]),
                        exc=got[1], input_class=case.get('class'))


def check_binop(run, case):
    a, b, op = common.dec(case['a']), common.dec(case['b']), case['op']
    case = dict(case)
    case['class'] = '%s %s %s' % (M.kind(a), op if op not in (
        '<', '<=', '>', '>=') else 'ord', M.kind(b))
    if case.get('form') == 'literals':
        try:
            text = '%s %s %s' % (common.lit(a), op, common.lit(b))
        except ValueError:
            return
        binds = {}
    else:
        text = '$a %s $b' % op
        binds = {'a': a, 'b': b}
    got = _outcome(text, binds)
    nt = not (M.kind(a) == M.kind(b) and a in ORDINARY and b in ORDINARY)
    run.case(case, nt, fp=(op, case['a'], case['b'], case.get('form')),
             cls=case['class'], sample=True)
    _judge(run, case, 'binary', M.binop(op, a, b), got, text + ' with %r, %r'
           % (a, b))


def _plain_lit(a):
    """literal spelling without sign or parentheses, or None"""
    if a is None or isinstance(a, (bool, str)):
        return common.lit(a)
    if a < 0 or (isinstance(a, float) and str(a)[0] == '-'):
        return None
    try:
        return common.lit(a)
    except ValueError:
        return None


def check_unop(run, case):
    a, op = common.dec(case['a']), case['op']
    case = dict(case)
    form = case.get('form', 'vars')
    case['class'] = 'unary %s %s' % (op, M.kind(a))
    expected = M.unop(op, a)
    if form == 'vars':
        text, binds = '%s $a' % op, {'a': a}
    else:
        l = _plain_lit(a)
        if l is None:
            return
        binds = {}
        if form == 'literal':
            text = '%s %s' % (op, l)
        elif form == 'literal-tight':
            text = '%s%s' % (op, l) if op != 'not' else 'not %s' % l
        else:       # operator applied twice to the literal
            text = '%s %s %s' % (op, op, l)
            if expected[0] == 'ok':
                expected = M.unop(op, expected[1])
    got = _outcome(text, binds)
    run.case(case, a not in ORDINARY or form != 'vars',
             fp=(op, case['a'], form), cls=[case['class'], 'unary-' + form])
    _judge(run, case, 'unary', expected, got, '%s with %r' % (text, a))


def _truth(text, binds):
    o = _outcome(text, binds)
    return o


def check_laws(run, case):
    """Laws evaluated through yaql only (no model): same-kind pairs."""
    a, b = common.dec(case['a']), common.dec(case['b'])
    binds = {'a': a, 'b': b}
    run.case(case, True, fp=('laws', case['a'], case['b']), cls='laws')
    r = {op: _outcome('$a %s $b' % op, binds)
         for op in ('<', '<=', '>', '>=', '=')}
    rev = {op: _outcome('$b %s $a' % op, binds) for op in ('<', '>')}
    if any(v[0] != 'ok' for v in list(r.values()) + list(rev.values())):
        run.violate('law-ordering-raises', case,
                    'ordering of same-kind operands raised: %r' % (
                        {k: v for k, v in r.items() if v[0] != 'ok'},))
        return
    v = {k: x[1] for k, x in r.items()}
    if v['>'] != rev['<'][1] or v['<'] != rev['>'][1]:
        run.violate('law-gt-iff-reversed-lt', case,
                    'a=%r b=%r: a>b=%r b<a=%r a<b=%r b>a=%r' % (
                        a, b, v['>'], rev['<'][1], v['<'], rev['>'][1]))
    if v['<='] != (v['<'] or v['=']) or v['>='] != (v['>'] or v['=']):
        run.violate('law-lte-is-lt-or-eq', case, 'a=%r b=%r: %r' % (a, b, v))
    if [v['<'], v['='], v['>']].count(True) != 1:
        run.violate('law-trichotomy', case, 'a=%r b=%r: %r' % (a, b, v))
    if M.kind(a) == 'int' and M.kind(b) == 'int' and b != 0:
        o = _outcome('($a / $b) * $b + ($a mod $b)', binds)
        if o[0] != 'ok' or not _same(o[1], a):
            run.violate('law-division-identity', case,
                        'a=%r b=%r: (a/b)*b+(a mod b) = %r' % (
                            a, b, _R(o[1])))


def check_transitivity(run, case):
    a, b, c = (common.dec(case[k]) for k in 'abc')
    binds = {'a': a, 'b': b, 'c': c}
    run.case(case, True, fp=('trans', case['a'], case['b'], case['c']),
             cls='transitivity')
    o = _outcome('[$a < $b, $b < $c, $a < $c, $a <= $b, $b <= $c, $a <= $c]',
                 binds)
    if o[0] != 'ok':
        run.violate('law-ordering-raises', case, repr(o[1]))
        return
    ab, bc, ac, abe, bce, ace = o[1]
    if (ab and bc and not ac) or (abe and bce and not ace):
        run.violate('law-transitivity', case, '%r %r %r: %r' % (a, b, c,
                                                                  o[1]))


def check_seqrep(run, case):
    """Sequence repetition: the count must be an integer, never a bool."""
    n = common.dec(case['n'])
    seq = [1, 'x']
    if M.kind(n) == 'int' and abs(n) > 10 ** 4:
        # huge counts belong to C08 (refusal before allocating)
        run.exclude('sequence repetition with |count| > 10**4 (see C08)')
        return
    for text, binds in (('$s * $n', {'s': seq, 'n': n}),
                        ('$n * $s', {'s': seq, 'n': n}),
                        ('$s * $n', {'s': tuple(seq), 'n': n})):
        got = _outcome(text, binds)
        c = dict(case, text=text, **{'class': 'seq * ' + M.kind(n)})
        run.case(c, True, fp=('seqrep', text, case['n'],
                              type(binds['s']).__name__), cls=c['class'])
        if M.kind(n) == 'int':
            if abs(n) * 2 <= 100:
                exp = ('ok', seq * n)
                if got[0] == 'ok' and list(got[1]) == exp[1]:
                    continue
                run.violate('seqrep-wrong', c, '%s with %r: got %r' % (
                    text, n, got[1]), input_class=c['class'])
        else:
            _judge(run, c, 'seqrep', ('exc', M.NOMATCH), got,
                   '%s with %r' % (text, n))


REPLAY = {'seqrep': check_seqrep, 'binop': check_binop, 'unop': check_unop, 'laws': check_laws,
          'transitivity': check_transitivity}


def _pairs_shard(run, ops, forms):
    for op in ops:
        for a, b in itertools.product(CORPUS, repeat=2):
            for form in forms:
                check_binop(run, {'kind': 'binop', 'op': op,
                                  'a': common.enc(a), 'b': common.enc(b),
                                  'form': form})


def _laws_shard(run, part, parts, triples):
    nums = [v for v in CORPUS if M.isnum(v)]
    strs = [v for v in CORPUS if M.kind(v) == 'str']
    pairs = list(itertools.product(nums, repeat=2)) + list(
        itertools.product(strs, repeat=2))
    for a, b in pairs[part::parts]:
        check_laws(run, {'kind': 'laws', 'a': common.enc(a),
                         'b': common.enc(b)})
    if triples:
        tr = list(itertools.product(nums + [None], repeat=3)) + list(
            itertools.product(strs + [None], repeat=3))
        for a, b, c in tr[part::parts]:
            check_transitivity(run, {'kind': 'transitivity',
                                     'a': common.enc(a), 'b': common.enc(b),
                                     'c': common.enc(c)})


# strings over base letters, combining marks and their precomposed forms
MARKED = st.text(st.sampled_from('aeEf \u0301\u0323\u00e9\u1e9b\u00df0'),
                 max_size=4)


def _random_shard(run, n, shard):
    scalar = st.one_of(
        st.none(), st.booleans(), st.integers(),
        st.integers(-10 ** 30, 10 ** 30),
        st.floats(allow_nan=False, allow_infinity=False),
        st.text(max_size=6))
    cases = st.builds(lambda op, a, b: {'kind': 'binop', 'op': op,
                                        'a': common.enc(a),
                                        'b': common.enc(b), 'form': 'vars'},
                      st.sampled_from(BIN), scalar, scalar)
    run.hyp('random-pairs', cases, lambda c: check_binop(run, c), n,
            shard=shard)
    same = st.one_of(
        st.tuples(st.integers(), st.integers()),
        st.tuples(st.integers(-100, 100), st.integers(-100, 100)),
        st.tuples(st.floats(allow_nan=False, allow_infinity=False),
                  st.one_of(st.integers(), st.floats(allow_nan=False,
                                                     allow_infinity=False))),
        st.tuples(st.text(max_size=4), st.text(max_size=4)),
        st.tuples(MARKED, MARKED))
    laws = same.map(lambda p: {'kind': 'laws', 'a': common.enc(p[0]),
                               'b': common.enc(p[1])})
    run.hyp('random-laws', laws, lambda c: check_laws(run, c), n,
            shard=shard)


def run(run):
    full = run.tier == 'thorough'
    _engine()
    common.std_context()
    jobs = [([op], ['vars', 'literals']) for op in BIN]
    run.shards(_pairs_shard, jobs)
    for a in CORPUS:
        for op in UN:
            for form in ('vars', 'literal', 'literal-tight', 'twice'):
                check_unop(run, {'kind': 'unop', 'op': op,
                                 'a': common.enc(a), 'form': form})
    for a in CORPUS:
        check_seqrep(run, {'kind': 'seqrep', 'n': common.enc(a)})
    run.shards(_laws_shard, [(i, 16, full) for i in range(16)])
    run.extra['exhaustive_pairs'] = True
    run.extra['exhaustive_subspace'] = (
        'all %d x %d ordered pairs of the corpus under %d binary operators in '
        'two spellings, all values under %d unary operators, all same-kind '
        'pairs under the law checks%s' % (
            len(CORPUS), len(CORPUS), len(BIN), len(UN),
            ', all same-kind triples (with null) for transitivity'
            if full else ''))
    k = 8
    n = (30000 if full else 1600) // k
    run.shards(_random_shard, [(n, i) for i in range(k)])

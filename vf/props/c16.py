"""C16 - literals denote exactly the values they spell."""
import sys
import unicodedata

from hypothesis import strategies as st

from vf import common
from yaql.language import exceptions as yexc
from yaql.language import expressions

RULE = ('(1) encoder round trip: code points (sampled in quick, the whole '
        'BMP + astral sample in thorough) alone and embedded, and strings '
        'from a generator biased to quotes, backslashes and escape '
        'look-alikes, written by the harness\'s own quoting function in the '
        '3 quote styles; (2) decoder model: sequences of plain characters, '
        'well-formed escapes of every documented form and look-alikes, in '
        '\'..\' and "..", and verbatim in `..`; (3) integer literals up to '
        '4000 digits (beyond the interpreter limit of 4300 digits up to '
        '8191: refused as a lexical error or exact), decimals up to 400+400 '
        'digits; numerically equal numerals of different kinds in one '
        'expression and in two statements the host both keeps; every string '
        'round trip also under an engine with a memory quota; (4) identifier-shaped '
        'words incl. reserved words, operator words and leading '
        'underscores; (5) the same word parsed in one process by engines '
        'whose tables have more / fewer identifier-like operators, in '
        'generated orders; non-trivial = string with a quote, backslash, control, '
        'non-ASCII or non-BMP character or empty; number with >18 digits or '
        'a fraction; reserved / underscore words; word that is an operator '
        'under one of the tables used and a name under another; distinct = distinct case')
ASSUMPTIONS = [
    'both the evaluated value and Constant.value in the tree are compared, '
    'by code points',
    'a backslash directly followed by a back quote or by the end of the '
    'string has no verbatim spelling (inherent to the grammar): known '
    'finding, still generated and counted',
    'escape look-alikes that the token grammar does not complete (\\x4 at '
    'the end, \\8, \\q) stand for themselves - characterisation of the '
    'pinned behaviour, the documentation does not say',
]

STYLES = {'single': "'", 'double': '"', 'verbatim': '`'}


def _engine():
    return common.engine()


def quote(s, style):
    q = STYLES[style]
    if style == 'verbatim':
        return q + s.replace('`', '\\`') + q
    return q + s.replace('\\', '\\\\').replace(q, '\\' + q) + q


def _quota_engine():
    # (the iterator limit bounds collections; a string is not one, however
    # many characters it has)
    return common.engine({'yaql.memoryQuota': 10 ** 7,
                          'yaql.limitIterators': 2})


def evaluate(text, eng=None):
    """('ok', value, constant value in tree) | ('exc', e)"""
    try:
        stmt = (eng or _engine())(text)
        node = stmt.expression
        while isinstance(node, expressions.Wrap):
            node = node.expr
        tree = node.value if isinstance(node, expressions.Constant) else \
            ('<not a constant>', type(node).__name__)
        return ('ok', stmt.evaluate(context=common.child()), tree)
    except Exception as e:   # noqa
        return ('exc', e)


def _nontrivial_str(s):
    return s == '' or any(c in '\'"`\\' or ord(c) < 32 or ord(c) > 126
                          for c in s)


def verbatim_unspellable(s):
    return s.endswith('\\') or '\\`' in s


def check_roundtrip(run, case):
    s = common.dec(case['s'])
    style = case['style']
    text = quote(s, style)
    out = evaluate(text)
    ic = style
    if style == 'verbatim' and verbatim_unspellable(s):
        ic = 'verbatim:backslash-before-backquote-or-end'
    elif style == 'verbatim' and '\\\n' in s:
        ic = 'verbatim:backslash-newline'
    run.case(case, _nontrivial_str(s), fp=(case['s'], style),
             cls=['roundtrip', 'style=' + style])
    if out[0] != 'ok':
        # (for the class that has no spelling at all, what the mis-tokenised
        # text trips over is arbitrary: keep exception and frame out of the
        # signature)
        unspellable = ic == 'verbatim:backslash-before-backquote-or-end'
        run.violate('spelling-rejected', case, '%r spelled %s raised %s: %s'
                    % (s, text, type(out[1]).__name__, out[1]),
                    exc=None if unspellable else out[1], input_class=ic)
        return
    if out[1] != s or type(out[1]) is not str:
        run.violate('reads-back-differently', case,
                    '%r spelled %s reads back as %r' % (s, text, out[1]),
                    input_class=ic)
    elif out[2] != s:
        run.violate('constant-in-tree-differs', case,
                    '%r spelled %s: Constant.value %r' % (s, text, out[2]),
                    input_class=ic)
    else:
        # the same literal under an engine with a memory quota (values are
        # measured there): a literal's value does not depend on the options
        out2 = evaluate(text, _quota_engine())
        if out2[0] != 'ok' or out2[1] != s:
            run.violate('reads-back-differently', case,
                        '%r spelled %s under an engine with '
                        'yaql.memoryQuota set: %s' % (
                            s, text, ('raised %s' % type(out2[1]).__name__)
                            if out2[0] != 'ok' else repr(out2[1])),
                        exc=out2[1] if out2[0] != 'ok' else None,
                        input_class=ic + '/quota-engine')


# --------------------------------------------------------------------------
# decoder model (independent of codecs)

SINGLE = {'\\': '\\', "'": "'", '"': '"', 'a': '\a', 'b': '\b', 'f': '\f',
          'n': '\n', 'r': '\r', 't': '\t', 'v': '\v'}
HEX = set('0123456789abcdefABCDEF')
ERR = ('err',)


def decode(body):
    """value of a '..' or ".." literal body, or ERR for a malformed escape"""
    out = []
    i = 0
    n = len(body)
    while i < n:
        c = body[i]
        if c != '\\' or i + 1 >= n:
            out.append(c)
            i += 1
            continue
        d = body[i + 1]
        if d in SINGLE:
            out.append(SINGLE[d])
            i += 2
        elif d in '01234567':
            j = i + 1
            while j < n and j < i + 4 and body[j] in '01234567':
                j += 1
            out.append(chr(int(body[i + 1:j], 8)))
            i = j
        elif d in 'xuU':
            width = {'x': 2, 'u': 4, 'U': 8}[d]
            digits = body[i + 2:i + 2 + width]
            if len(digits) < width or '\n' in digits:
                out.append(c)            # look-alike: stands for itself
                i += 1
                continue
            if not all(h in HEX for h in digits):
                return ERR
            cp = int(digits, 16)
            if cp > 0x10FFFF:
                return ERR
            out.append(chr(cp))
            i += 2 + width
        elif d == 'N' and i + 2 < n and body[i + 2] == '{':
            j = body.find('}', i + 3)
            if j < 0 or j == i + 3:
                out.append(c)
                i += 1
                continue
            name = body[i + 3:j]
            try:
                out.append(unicodedata.lookup(name))
            except (KeyError, UnicodeError, ValueError):
                return ERR
            i = j + 1
        else:
            out.append(c)
            i += 1
    return ''.join(out)


def _tokenizable(body, q):
    """the body must be a sequence of non-quote non-backslash characters and
    backslash pairs (what the token grammar accepts between the quotes)"""
    i = 0
    while i < len(body):
        if body[i] == '\\':
            if i + 1 >= len(body) or body[i + 1] == '\n':
                return False
            i += 2
        elif body[i] == q:
            return False
        else:
            i += 1
    return True


def check_pair(run, case):
    """two numerals of one expression (or of two statements the host both
    keeps) that are numerically equal but different literals: each denotes
    its own value and type"""
    a, b = case['a'], case['b']
    want = []
    for t in (a, b):
        want.append(float(t) if '.' in t else int(t))
    run.case(case, True, cls=['number-pair'])
    if case.get('how') == 'two-statements':
        eng = common.engine(cache=False) if case.get('fresh') else _engine()
        s1 = eng(a)
        s2 = eng(b)              # s1 is still referenced here
        got = [s1.evaluate(context=common.child()),
               s2.evaluate(context=common.child())]
        text = '%s ; %s' % (a, b)
    else:
        text = '[%s, %s, str(%s) + str(%s)]' % (a, b, a, b)
        out = evaluate(text)
        if out[0] != 'ok':
            run.violate('number-rejected', case, '%s raised %s' % (
                text, type(out[1]).__name__), exc=out[1],
                input_class='number-pair')
            return
        got = list(out[1])[:2]
        tail = list(out[1])[2]
        exp_tail = ''.join(('%r' % v) if isinstance(v, float) else str(v)
                           for v in want)
        if tail.replace('.0', '') != exp_tail.replace('.0', '') or \
                ('.' in tail) != ('.' in exp_tail):
            run.violate('number-denotes-other-value', case,
                        '%s -> %r' % (text, out[1]),
                        input_class='number-pair')
            return
    for g, w in zip(got, want):
        if type(g) is not type(w) or g != w:
            run.violate('number-denotes-other-value', case,
                        '%s -> %r, expected %r' % (text, got, want),
                        input_class='number-pair')
            return


def check_decode(run, case):
    body = common.dec(case['body'])
    style = case['style']
    q = STYLES[style]
    if not _tokenizable(body, q):
        run.exclude('body not tokenizable in this style')
        return
    text = q + body + q
    out = evaluate(text)
    if style == 'verbatim':
        exp = body.replace('\\`', '`')
    else:
        exp = decode(body)
    run.case(case, '\\' in body, fp=(case['body'], style),
             cls=['decode', 'style=' + style] + (
                 ['model-error'] if exp is ERR else []))
    if exp is ERR:
        if out[0] == 'ok':
            run.violate('malformed-escape-accepted', case,
                        '%s -> %r' % (text, out[1]), input_class=style)
        elif not isinstance(out[1], yexc.YaqlLexicalException):
            run.violate('malformed-escape-wrong-exception', case,
                        '%s raised %s' % (text, type(out[1]).__name__),
                        exc=out[1], input_class=style)
        return
    if out[0] != 'ok':
        run.violate('escape-literal-rejected', case, '%s raised %s: %s' % (
            text, type(out[1]).__name__, out[1]), exc=out[1],
            input_class=style)
    elif out[1] != exp or out[2] != exp:
        run.violate('escape-decodes-differently', case,
                    '%s -> %r (tree %r), model %r' % (text, out[1], out[2],
                                                     exp), input_class=style)


def check_number(run, case):
    text = case['text']
    out = evaluate(text)
    isfloat = '.' in text
    digits = len(text.replace('.', ''))
    run.case(case, digits > 18 or isfloat, cls=['number', (
        'float' if isfloat else 'int')])
    if not isfloat and digits > 4300:
        # beyond the interpreter's int/str conversion limit: the numeral may
        # be refused as a lexical error, but if it is accepted it denotes
        # the integer it spells (pieces of 4000 digits keep the harness
        # itself below the limit)
        exp = 0
        for i in range(0, len(text), 4000):
            piece = text[i:i + 4000]
            exp = exp * 10 ** len(piece) + int(piece)
        if out[0] != 'ok':
            if not isinstance(out[1], yexc.YaqlLexicalException):
                run.violate('number-rejected', case, '%s... raised %s' % (
                    text[:40], type(out[1]).__name__), exc=out[1],
                    input_class='int>4300')
        elif out[1] != exp or type(out[1]) is not int:
            run.violate('number-denotes-other-value', case,
                        'a numeral of %d digits denotes another integer '
                        '(%d bits instead of %d)' % (
                            digits, out[1].bit_length(), exp.bit_length()),
                        input_class='int>4300')
        return
    exp = float(text) if isfloat else int(text)
    if out[0] != 'ok':
        run.violate('number-rejected', case, '%s raised %s: %s' % (
            text[:60], type(out[1]).__name__, out[1]), exc=out[1],
            input_class='float' if isfloat else 'int')
    elif type(out[1]) is not type(exp) or out[1] != exp or out[2] != exp or \
            (isfloat and repr(out[1]) != repr(exp)):
        # (an integer beyond the int/str conversion limit cannot be printed)
        shown = '<int of %d bits>' % out[1].bit_length() if type(
            out[1]) is int and out[1].bit_length() > 12000 else repr(out[1])
        run.violate('number-denotes-other-value', case,
                    '%s -> %s, python %r' % (text[:60], shown, exp),
                    input_class='float' if isfloat else 'int')


OPERATOR_WORDS = {'and', 'or', 'not', 'in', 'mod'}
CONSTANTS = {'true': True, 'false': False, 'null': None}


def check_word(run, case):
    w = common.dec(case['w'])
    out = evaluate(w)
    special = w in CONSTANTS or w in OPERATOR_WORDS or w.startswith('_')
    run.case(case, special, cls=['word'] + (['special'] if special else []))
    if w in OPERATOR_WORDS:
        if out[0] == 'ok':
            run.violate('operator-word-is-a-value', case, '%s -> %r' % (
                w, out[1]), input_class='operator-word')
        return
    if w.startswith('__'):
        if out[0] == 'ok' or not isinstance(
                out[1], yexc.YaqlParsingException):
            run.violate('double-underscore-word-accepted', case,
                        '%s -> %r' % (w, out[1]), input_class='dunder')
        return
    exp = CONSTANTS[w] if w in CONSTANTS else w
    if out[0] != 'ok':
        run.violate('word-rejected', case, '%s raised %s: %s' % (
            w, type(out[1]).__name__, out[1]), exc=out[1],
            input_class='word')
    elif out[1] != exp or type(out[1]) is not type(exp) or out[2] != exp:
        run.violate('word-denotes-other-value', case, '%s -> %r, expected %r'
                    % (w, out[1], exp), input_class='word')


# ---- the same word under engines with different operator words ------------

_WORD_ENGINES = {}


def word_engine(name):
    """engines whose tables differ in the identifier-like operators: what a
    word stands for is decided by the table of the engine that parses it"""
    if name not in _WORD_ENGINES:
        from yaql.language import factory as yfactory
        if name == 'default':
            e, words = _engine(), set(OPERATOR_WORDS)
        elif name == 'extra':
            e = common.engine(inserts=(
                ('or', True, 'xor', yfactory.OperatorType.BINARY_LEFT_ASSOCIATIVE,
                 False),
                ('not', False, 'nothing',
                 yfactory.OperatorType.PREFIX_UNARY, False)))
            words = OPERATOR_WORDS | {'xor', 'nothing'}
        else:
            f = common.make_factory()
            f.operators = [r for r in f.operators
                           if r == () or r[0] not in ('mod', 'in')]
            e, words = f.create(), OPERATOR_WORDS - {'mod', 'in'}
        _WORD_ENGINES[name] = (e, words)
    return _WORD_ENGINES[name]


def check_word_engines(run, case):
    w = common.dec(case['w'])
    seen = set()
    for name in case['order']:
        eng, opwords = word_engine(name)
        try:
            stmt = eng(w)
            out = ('ok', stmt.evaluate(context=common.child()),
                   getattr(stmt, 'value', None))
        except Exception as e:
            out = ('exc', e)
        if w in opwords:
            if out[0] == 'ok':
                run.violate('operator-word-is-a-value', case,
                            '%s -> %r under the %s table' % (w, out[1], name),
                            input_class='engines:' + name)
        elif out[0] != 'ok':
            run.violate('word-rejected', case,
                        '%s raised %s: %s under the %s table' % (
                            w, type(out[1]).__name__, out[1], name),
                        exc=out[1], input_class='engines:' + name)
        elif out[1] != w or type(out[1]) is not str:
            run.violate('word-denotes-other-value', case,
                        '%s -> %r under the %s table' % (w, out[1], name),
                        input_class='engines:' + name)
        seen.add(w in opwords)
    run.case(case, len(seen) == 2, fp=(case['w'], tuple(case['order'])),
             cls=['word-engines'] + (['table-dependent'] if len(seen) == 2
                                     else []))


REPLAY = {'number-pair': check_pair, 'roundtrip': check_roundtrip, 'decode': check_decode,
          'number': check_number, 'word': check_word,
          'word-engines': check_word_engines}

# --------------------------------------------------------------------------

tricky = st.sampled_from(list('\'"`\\') + ['\ud83d\ude00', '\ud83d', '\ude00',
                                           '\udbff\udfff', '\\ud83d\\ude00',
                                           '\\\\', '\\x4', '\\u12', '\\N{',
                                           '\\8', '\\n', '\n', '\t', '\x00',
                                           ' ', 'é', '\U0001d4b3', 'a', '0',
                                           'x41', '}', '{', '\\`', "\\'"])
rt_strings = st.one_of(
    st.lists(tricky, max_size=8).map(''.join),
    st.text(max_size=6),
    st.lists(st.one_of(tricky, st.characters()), max_size=6).map(''.join))

ESCAPES = ['\\ud83d\\ude00', '\\ud83d', '\\ude00', '\\udbff\\udfff',
           '\\\\', "\\'", '\\"', '\\a', '\\b', '\\f', '\\n', '\\r', '\\t',
           '\\v', '\\0', '\\7', '\\12', '\\101', '\\377', '\\400', '\\777',
           '\\18', '\\x41', '\\xe9', '\\x00', '\\xFF', '\\u0041', '\\u00e9',
           '\\ud7ff', '\\uffff', '\\U00000041', '\\U0001d4b3', '\\U0010FFFF',
           '\\N{LATIN SMALL LETTER A}', '\\N{BULLET}', '\\N{DIGIT ONE}',
           '\\N{latin small letter e with acute}']
LOOKALIKES = ['\\x4', '\\x', '\\u12', '\\u', '\\U0001', '\\N', '\\N{', '\\8',
              '\\9', '\\q', '\\d', '\\ ', '\\(', '\\N}', '\\xg1', '\\x4g',
              '\\u12g4', '\\U00110000', '\\N{nope}', '\\N{}x', '\\`', '\\$']
PLAIN = ['a', 'b', ' ', '1', 'é', '\U0001d4b3', '{', '}', '$', '#',
         '\ud83d', '\ude00', '\ud83d\ude00']

decode_bodies = st.lists(
    st.one_of(st.sampled_from(ESCAPES), st.sampled_from(ESCAPES),
              st.sampled_from(LOOKALIKES), st.sampled_from(PLAIN),
              st.sampled_from(PLAIN)), max_size=5).map(''.join)

digits = st.text('0123456789', min_size=1, max_size=30)
numbers = st.one_of(
    digits, st.sampled_from([4299, 4300, 4301, 4500, 5120, 6000, 8191]).map(
        lambda n: '9' * n),
    st.integers(4301, 7000).flatmap(
        lambda n: st.text('0123456789', min_size=n, max_size=n).map(
            lambda t: '1' + t[1:])),
    st.integers(1, 4000).flatmap(
        lambda n: st.text('0123456789', min_size=n, max_size=n)),
    st.builds(lambda a, b: a + '.' + b, digits, digits),
    st.builds(lambda a, b: a + '.' + b,
              st.text('0123456789', min_size=1, max_size=400),
              st.text('0123456789', min_size=1, max_size=400)),
    st.sampled_from(['0', '00', '007', '0.0', '1.0', '9' * 19, '1' + '0' * 40,
                     '0.1', '3.14', '2.50', '18446744073709551616',
                     '9007199254740993', '0.30000000000000004']),
    # decimal numerals at the upper end of the finite doubles (308 / 309
    # integer digits) and just beyond it
    st.sampled_from([format(sys.float_info.max, 'f'),
                     '1' + '0' * 308 + '.0', '9' * 308 + '.9',
                     '17' + '0' * 307 + '.5', '1' + '0' * 307 + '.25',
                     '179769313486231570' + '0' * 291 + '.0',
                     '18' + '0' * 307 + '.0', '1' + '0' * 309 + '.0']),
    st.builds(lambda lead, n, frac: lead + '0' * n + '.' + frac,
              st.sampled_from(['1', '12', '17', '179', '9']),
              st.integers(300, 310), digits))

# (letters and digits whose compatibility / canonical normal forms differ
# from themselves: micro sign, ohm and angstrom signs, ligature fi,
# full-width A, long s, superscript two, long s with dot, the digraph DZ)
UNNORMALISED = ['\u00b5', '\u2126', '\u212b', '\ufb01', '\uff21', '\u017f',
                '\u1e9b', '\u01c4']
ident_start = st.one_of(st.sampled_from(
    list('abcxyzABC_') + ['é', 'ß', 'Ω', '中'] + UNNORMALISED))
ident_rest = st.lists(st.sampled_from(
    list('abcxyz_019') + ['é', 'Ω', '中', '٣', '\u00b2', '\u2460'] +
    UNNORMALISED), max_size=8).map(''.join)
words = st.one_of(
    st.builds(lambda a, b: a + b, ident_start, ident_rest),
    st.sampled_from(['true', 'false', 'null', 'and', 'or', 'not', 'in',
                     'mod', 'True', 'NULL', 'nul', 'truee', '_', '_x', '__',
                     '__x', '___', '___x', '_1', 'x__', 'a_b', 'android',
                     'nothing', 'inn', 'order']))


def _rt(s, style):
    return {'kind': 'roundtrip', 's': common.enc(s), 'style': style}


def _codepoint_shard(run, cps):
    for cp in cps:
        if 0xD800 <= cp <= 0xDFFF:
            continue
        ch = chr(cp)
        for style in STYLES:
            check_roundtrip(run, _rt(ch, style))
            check_roundtrip(run, _rt('a' + ch + 'b', style))


def _hyp_shard(run, which, n, shard):
    if which == 'roundtrip':
        cases = st.builds(_rt, rt_strings, st.sampled_from(sorted(STYLES)))
        run.hyp('roundtrip', cases, lambda c: check_roundtrip(run, c), n,
                shard=shard)
    elif which == 'decode':
        cases = st.builds(lambda b, s: {'kind': 'decode',
                                        'body': common.enc(b), 'style': s},
                          decode_bodies, st.sampled_from(sorted(STYLES)))
        run.hyp('decode', cases, lambda c: check_decode(run, c), n,
                shard=shard)
    elif which == 'number':
        run.hyp('numbers', numbers.map(lambda t: {'kind': 'number',
                                                  'text': t}),
                lambda c: check_number(run, c), n, shard=shard)
    elif which == 'pairs':
        twins = st.sampled_from([
            ('1', '1.0'), ('0', '0.00'), ('3', '3.0'), ('7.0', '7'),
            ('10000000000000000000000', '10000000000000000000000.0'),
            ('5', '5.0'), ('2', '2.000'), ('100', '100.0'), ('1.0', '1'),
            ('42', '42.0'), ('0.0', '0')])
        cases = st.builds(
            lambda t, how, fresh: {'kind': 'number-pair', 'a': t[0],
                                   'b': t[1], 'how': how, 'fresh': fresh},
            twins, st.sampled_from(['one-expression', 'two-statements']),
            st.just(False))
        run.hyp('number-pairs', cases, lambda c: check_pair(run, c), n,
                shard=shard)
    elif which == 'word':
        run.hyp('words', words.map(lambda w: {'kind': 'word',
                                              'w': common.enc(w)}),
                lambda c: check_word(run, c), n, shard=shard)
    else:
        plain = st.one_of(
            st.sampled_from(['mod', 'in', 'xor', 'nothing', 'mod', 'in',
                             'xor', 'nothing', 'abc', 'order']),
            words.filter(lambda w: not w.startswith('__') and
                         w not in CONSTANTS))
        cases = st.builds(
            lambda w, o: {'kind': 'word-engines', 'w': common.enc(w),
                          'order': o},
            plain, st.lists(st.sampled_from(['default', 'extra', 'fewer']),
                            min_size=2, max_size=4))
        run.hyp('word-engines', cases, lambda c: check_word_engines(run, c),
                n, shard=shard)


def run(run):
    full = run.tier == 'thorough'
    _engine()
    common.std_context()
    if full:
        cps = list(range(0, 0x10000)) + list(range(0x10000, 0x110000, 521))
        run.extra['exhaustive_subspace'] = (
            'every BMP code point (and every 521st astral one) alone and '
            'embedded in 3 quote styles')
    else:
        # deterministic sample: ASCII + Latin-1 completely, then a stride
        # through the rest chosen by the seed
        stride = 61
        cps = list(range(0, 0x300)) + list(range(
            0x300 + run.seed % stride, 0x110000, stride * 17))
    jobs = [(cps[i::16],) for i in range(16)]
    run.shards(_codepoint_shard, jobs)
    # every escape and look-alike alone, in each style
    for e in ESCAPES + LOOKALIKES:
        for style in STYLES:
            check_decode(run, {'kind': 'decode', 'body': common.enc(e),
                               'style': style})
            check_decode(run, {'kind': 'decode',
                               'body': common.enc('a' + e + 'b'),
                               'style': style})
    k = 4
    jobs = []
    for which, nq, nf in (('roundtrip', 6000, 100000),
                          ('decode', 3000, 50000), ('number', 800, 10000),
                          ('word', 800, 10000),
                          ('word-engines', 400, 6000),
                          ('pairs', 80, 400)):
        for i in range(k):
            jobs.append((which, (nf if full else nq) // k, i))
    run.shards(_hyp_shard, jobs)

"""C14 - streaming operators consume only what they need from their source.

Pipelines of 1-4 streaming operators over an endless instrumented source; the
first k results are pulled from the unfinalised iterator.  Oracle: the same
pipeline written as plain Python generators over a counting source gives the
number of pulls and of lambda applications those k results require; yaql may
use at most one more of each.
"""
import itertools

from hypothesis import strategies as st

from vf import common
from vf.common import HarnessAbort, Source

RULE = ('pipelines of 1-4 operators from the property\'s list (select, '
        'where, selectMany, skip, take, takeWhile, skipWhile, append, concat, '
        'distinct, enumerate, zip, accumulate, insert, delete, replace, '
        'slice, memorize, member projection, join outer side; optionally '
        'ending in first/any/all/indexOf/indexWhere; the operator form + '
        'with a list on either side; distinct by key, accumulate with seed) '
        'over an endless source 0,1,2,... - a context variable, or the data '
        'of the evaluation as a one-shot iterator or as an unsized '
        're-iterable host collection - with tick-instrumented lambdas from a periodic family; k '
        'in 0..6 results are pulled; non-trivial = k >= 1 and the pipeline '
        'has an operator that would behave differently if it materialised; '
        'distinct = distinct (pipeline, k)')
ASSUMPTIONS = [
    'one pipeline evaluation that takes longer than 60 s (slowest on the '
    'tree: a few ms) is reported as non-termination (only use of the clock)',
    'need = pulls / lambda applications of the straightforward generator '
    'implementation of the same pipeline (models are itertools and '
    'hand-written generators); yaql may exceed it by one',
    'pipelines whose model needs more than 400 source elements (e.g. '
    'where(false)) are excluded by construction and counted',
]

BUDGET = 400


def _engine():
    return common.engine({'yaql.convertOutputData': False})


class Counter:
    def __init__(self):
        self.pulls = 0
        self.apps = {}

    def source(self):
        i = 0
        while True:
            if self.pulls >= BUDGET:
                raise HarnessAbort('model budget')
            self.pulls += 1
            yield i
            i += 1

    def fn(self, lid, f):
        def g(*a):
            self.apps[lid] = self.apps.get(lid, 0) + 1
            return f(*a)
        return g


# lambda families (source text, python)
PRED = {'m3': ('$ mod 3 = 0', lambda x: x % 3 == 0),
        'odd': ('$ mod 2 = 1', lambda x: x % 2 == 1),
        'true': ('true', lambda x: True),
        'lt5': ('$ < 5', lambda x: x < 5),
        'ge2': ('$ >= 2', lambda x: x >= 2),
        'lt2': ('$ < 2', lambda x: x < 2)}
SEL = {'id': ('$', lambda x: x), 'dbl': ('$ * 2', lambda x: x * 2),
       'm4': ('$ mod 4', lambda x: x % 4), 'inc': ('$ + 1', lambda x: x + 1)}
MANY = {'two': ('[$, $ + 100]', lambda x: [x, x + 100]),
        'one': ('[$]', lambda x: [x]),
        'scalar': ('$ * 3', lambda x: x * 3),
        'none-or-one': ('[$].where($ mod 2 = 0)',
                        lambda x: [x] if x % 2 == 0 else [])}
F2 = {'add': ('$1 + $2', lambda a, b: a + b),
      'second': ('$2', lambda a, b: b)}


def tick(lid, src):
    return 'tick(%d, %s)' % (lid, src)


# operator table: name -> (template on {c}, model(gen, params, counter))
def op_select(g, p, c):
    f = c.fn(p['lid'], SEL[p['S']][1])
    return map(f, g)


def op_where(g, p, c):
    f = c.fn(p['lid'], PRED[p['P']][1])
    return filter(f, g)


def op_select_many(g, p, c):
    f = c.fn(p['lid'], MANY[p['M']][1])

    def gen():
        for x in g:
            r = f(x)
            if isinstance(r, list):
                for y in r:
                    yield y
            else:
                yield r
    return gen()


def op_select_many_lazy(g, p, c):
    """the selector returns a lazy collection with a lambda of its own"""
    outer = c.fn(p['lid'], lambda x: x)
    inner = c.fn(p['lid'] + 50, lambda y: y + 100)

    def gen():
        for x in g:
            outer(x)
            for y in range(5):
                yield inner(y) + x
    return gen()


def op_select_many_endless(g, p, c):
    def gen():
        n = 0
        for x in g:
            for y in itertools.count(x):
                n += 1
                if n > 5000:
                    # a later stage that never lets anything through
                    raise HarnessAbort('model budget')
                yield y
    return gen()


def op_distinct(g, p, c):
    def gen():
        seen = set()
        for x in g:
            if x not in seen:
                seen.add(x)
                yield x
    return gen()


def op_distinct_by(g, p, c):
    f = c.fn(p['lid'], SEL[p['S']][1])

    def gen():
        seen = set()
        for x in g:
            key = f(x)
            if key not in seen:
                seen.add(key)
                yield x
    return gen()


def op_accumulate_seed(g, p, c):
    f = c.fn(p['lid'], F2[p['F']][1])

    def gen():
        total = 100
        yield total
        for x in g:
            total = f(total, x)
            yield total
    return gen()


def op_accumulate(g, p, c):
    f = c.fn(p['lid'], F2[p['F']][1])

    def gen():
        it = iter(g)
        try:
            total = next(it)
        except StopIteration:
            raise TypeError('empty')
        yield total
        for x in it:
            total = f(total, x)
            yield total
    return gen()


def op_insert(g, p, c):
    def gen():
        i = -1
        for i, x in enumerate(g):
            if i == p['n']:
                yield -7
            yield x
        if p['n'] > i:
            yield -7
    return gen()


def op_delete(g, p, c):
    n, m = p['n'], p.get('m', 1)
    return (x for i, x in enumerate(g) if not n <= i < n + m)


def op_replace(g, p, c):
    n, m = p['n'], p.get('m', 1)

    def gen():
        done = False
        for i, x in enumerate(g):
            if n <= i < n + m:
                if not done:
                    done = True
                    yield -7
            else:
                yield x
    return gen()


def op_slice(g, p, c):
    def gen():
        it = iter(g)
        while True:
            chunk = list(itertools.islice(it, p['w']))
            if not chunk:
                return
            yield chunk
    return gen()


def op_join(g, p, c):
    pred = c.fn(p['lid'], lambda a, b: (a + b) % 2 == 0)

    def gen():
        for x in g:
            for y in (1, 2):
                if pred(x, y):
                    yield [x, y]
    return gen()


OPS = {
    'select': ('{c}.select({L})', op_select, 'S'),
    'where': ('{c}.where({L})', op_where, 'P'),
    'selectMany': ('{c}.selectMany({L})', op_select_many, 'M'),
    'selectMany-lazy': ('{c}.selectMany({L})', op_select_many_lazy, 'ML'),
    'selectMany-endless': ('{c}.selectMany(sequence($))',
                           op_select_many_endless, None),
    'skip': ('{c}.skip({n})', lambda g, p, c: itertools.islice(
        g, p['n'], None), None),
    'take': ('{c}.take({n})', lambda g, p, c: itertools.islice(g, p['n']),
             None),
    'takeWhile': ('{c}.takeWhile({L})', lambda g, p, c: itertools.takewhile(
        c.fn(p['lid'], PRED[p['P']][1]), g), 'P'),
    'skipWhile': ('{c}.skipWhile({L})', lambda g, p, c: itertools.dropwhile(
        c.fn(p['lid'], PRED[p['P']][1]), g), 'P'),
    'append': ('{c}.append(-1)', lambda g, p, c: itertools.chain(g, [-1]),
               None),
    'concat': ('{c}.concat([-1, -2])',
               lambda g, p, c: itertools.chain(g, [-1, -2]), None),
    'concat-front': ('[-1, -2].concat({c})',
                     lambda g, p, c: itertools.chain([-1, -2], g), None),
    'plus-list-front': ('([-1, -2] + {c})',
                        lambda g, p, c: itertools.chain([-1, -2], g), None),
    'plus-list-back': ('({c} + [-1])',
                       lambda g, p, c: itertools.chain(g, [-1]), None),
    'distinct': ('{c}.distinct()', op_distinct, None),
    'distinct-by': ('{c}.distinct({L})', op_distinct_by, 'S'),
    'accumulate-seed': ('{c}.accumulate({L}, 100)', op_accumulate_seed, 'F'),
    'enumerate': ('{c}.enumerate().select($[1])',
                  lambda g, p, c: (x for i, x in enumerate(g)), None),
    'zip': ('{c}.zip([7, 8, 9, 10]).select($[0])',
            lambda g, p, c: (a for a, b in zip(g, [7, 8, 9, 10])), None),
    'zip-as-argument': ('[-1, -2].zip({c}).select($[1])',
                        lambda g, p, c: (b for a, b in zip([-1, -2], g)),
                        None),
    'zip-as-argument-3': ('[-1].zip([5, 6, 7], {c}).select($[2])',
                          lambda g, p, c: (
                              z for a, b, z in zip([-1], [5, 6, 7], g)),
                          None),
    'zipLongest-as-argument': (
        '[-1, -2].zipLongest({c}).take(3).select($[1])',
        lambda g, p, c: itertools.islice((b for a, b in itertools.zip_longest(
            [-1, -2], g)), 3), None),
    'accumulate': ('{c}.accumulate({L})', op_accumulate, 'F'),
    'insert': ('{c}.insert({n}, -7)', op_insert, None),
    'delete': ('{c}.delete({n}, {m})', op_delete, None),
    'replace': ('{c}.replace({n}, -7, {m})', op_replace, None),
    'slice': ('{c}.slice({w}).select($.sum())',
              lambda g, p, c: (sum(ch) for ch in op_slice(g, p, c)), None),
    'memorize': ('{c}.memorize()', lambda g, p, c: g, None),
    'project': ('{c}.select({{k => $}}).k', lambda g, p, c: g, None),
    'join-outer': ('{c}.join([1, 2], {L}, [$1, $2]).select($[0])',
                   lambda g, p, c: (r[0] for r in op_join(g, p, c)), 'J'),
}
END = {
    'first': ('{c}.first(-9)', lambda g, p, c: next(iter(g), -9), None),
    'any': ('{c}.any({L})', lambda g, p, c: any(map(
        c.fn(p['lid'], PRED[p['P']][1]), g)), 'P'),
    # without a predicate: is there a first element
    'any-nopred': ('{c}.any()', lambda g, p, c: any(True for _ in g), None),
    'all': ('{c}.all({L})', lambda g, p, c: all(map(
        c.fn(p['lid'], PRED[p['P']][1]), g)), 'P'),
    'indexOf': ('{c}.indexOf({v})', lambda g, p, c: next(
        (i for i, x in enumerate(g) if x == p['v']), -1), None),
    'indexWhere': ('{c}.indexWhere({L})', lambda g, p, c: next(
        (i for i, x in enumerate(g) if c.fn(
            p['lid'], PRED[p['P']][1])(x)), -1), 'P'),
}


def _lambda_src(step):
    fam = {'S': SEL, 'P': PRED, 'M': MANY, 'F': F2}
    kind = (OPS.get(step['op']) or END[step['op']])[2]
    if kind == 'J':
        return tick(step['lid'], '($1 + $2) mod 2 = 0')
    if kind == 'ML':
        return 'let(x => %s) -> range(5).select(%s + $x)' % (
            tick(step['lid'], '$'), tick(step['lid'] + 50, '$ + 100'))
    if kind is None:
        return None
    return tick(step['lid'], fam[kind][step[kind]][0])


def build_text(steps, root='$src'):
    text = root
    for s in steps:
        tpl = (OPS.get(s['op']) or END[s['op']])[0]
        text = tpl.format(c=text, L=_lambda_src(s), n=s.get('n'),
                          m=s.get('m', 1), w=s.get('w'), v=s.get('v'))
    return text


def run_model(steps, k):
    c = Counter()
    g = c.source()
    scalar = None
    for s in steps:
        if s['op'] in END:
            scalar = (s, END[s['op']][1])
        else:
            g = OPS[s['op']][1](g, s, c)
    if scalar is not None:
        val = scalar[1](g, scalar[0], c)
        return ('scalar', val), c
    out = []
    it = iter(g)
    for _ in range(k):
        try:
            out.append(next(it))
        except StopIteration:
            break
    return ('items', out), c


def check_pipeline(run, case):
    steps, k = case['steps'], case['k']
    try:
        exp, mc = run_model(steps, k)
    except HarnessAbort:
        run.exclude('model needs more than %d source elements' % BUDGET)
        return
    except TypeError:
        run.exclude('model pipeline fails')
        return
    # the source reaches the expression as a context variable, or as the
    # data of the evaluation (`$`, through input conversion): a one-shot
    # iterator, or a host collection that is re-iterable but not a sequence
    via = case.get('via', 'var')
    text = build_text(steps, '$src' if via == 'var' else '$')
    log = []
    ctx = common.child()
    common.add_tick(ctx, log)
    if via == 'data-reiterable':
        src = common.ReSource(budget=mc.pulls + 60)
    else:
        src = Source(budget=mc.pulls + 60)
    if via == 'var':
        ctx['$src'] = src
    # (an operator that materialises an endless inner collection never
    # returns: the watchdog reports the case as non-termination)
    run.guard(case)
    try:
        if via == 'var':
            res = _engine()(text).evaluate(context=ctx)
        else:
            res = _engine()(text).evaluate(data=src, context=ctx)
        if exp[0] == 'scalar':
            got = ('scalar', res)
        else:
            out = []
            it = iter(res)
            for _ in range(k):
                try:
                    out.append(next(it))
                except StopIteration:
                    break
            got = ('items', out)
    except HarnessAbort:
        got = ('abort', None)
    except Exception as e:   # noqa
        got = ('exc', e)
    streaming = any(s['op'] != 'memorize' for s in steps)
    run.case(case, (k >= 1 or exp[0] == 'scalar') and streaming,
             fp=([{kk: v for kk, v in s.items() if kk != 'lid'}
                  for s in steps], k, via),
             cls=['pipeline', 'len=%d' % len(steps), 'via=' + via] + [
                 'op=' + s['op'] for s in steps])
    ic = '>'.join(s['op'] for s in steps)
    if got[0] == 'abort':
        run.violate('source-overconsumed', case,
                    '%s: asked for %d results, model needs %d pulls, yaql '
                    'pulled more than %d' % (text, k, mc.pulls,
                                             mc.pulls + 60), input_class=ic)
        return
    if got[0] == 'exc':
        run.violate('pipeline-raises', case, '%s raised %s: %s' % (
            text, type(got[1]).__name__, got[1]), exc=got[1], input_class=ic)
        return
    if _canon(got[1]) != _canon(exp[1]):
        run.violate('results-differ', case, '%s first %d -> %r, model %r' % (
            text, k, got[1], exp[1]), input_class=ic)
        return
    if src.pulls > mc.pulls + 1:
        run.violate('source-overconsumed', case,
                    '%s: %d results need %d source elements, yaql consumed '
                    '%d' % (text, k, mc.pulls, src.pulls), input_class=ic)
        return
    lids = []
    for s in steps:
        if 'lid' in s and _lambda_src(s) is not None:
            lids.append((s, s['lid']))
            if s['op'] == 'selectMany-lazy':
                lids.append((s, s['lid'] + 50))
    for s, lid in lids:
        if True:
            need = mc.apps.get(lid, 0)
            used = log.count(lid)
            if used > need + 1:
                run.violate('lambda-overapplied', case,
                            '%s: lambda of %s needs %d applications for %d '
                            'results, yaql applied it %d times' % (
                                text, s['op'], need, k, used),
                            input_class=ic)
                return


def _canon(x):
    if isinstance(x, (list, tuple)):
        return [_canon(i) for i in x]
    return x


REPLAY = {'pipeline': check_pipeline}


@st.composite
def pipelines(draw):
    steps = []
    n = draw(st.integers(1, 4))
    for i in range(n):
        op = draw(st.sampled_from(sorted(OPS)))
        s = {'op': op, 'lid': i + 1}
        kind = OPS[op][2]
        if kind == 'S':
            s['S'] = draw(st.sampled_from(sorted(SEL)))
        elif kind == 'P':
            s['P'] = draw(st.sampled_from(sorted(PRED)))
        elif kind == 'M':
            s['M'] = draw(st.sampled_from(sorted(MANY)))
        elif kind == 'F':
            s['F'] = draw(st.sampled_from(sorted(F2)))
        if op in ('skip', 'take', 'insert', 'delete', 'replace'):
            s['n'] = draw(st.integers(0, 6))
        if op in ('delete', 'replace'):
            s['m'] = draw(st.integers(0, 4))
        if op == 'delete' and draw(st.booleans()):
            # a position before the start: [position, position + count)
            # covers a prefix or nothing at all
            s['n'] = draw(st.integers(-8, -1))
        if op == 'slice':
            s['w'] = draw(st.integers(1, 4))
        steps.append(s)
    if draw(st.integers(0, 3)) == 0:
        op = draw(st.sampled_from(sorted(END)))
        s = {'op': op, 'lid': n + 1}
        if END[op][2] == 'P':
            s['P'] = draw(st.sampled_from(sorted(PRED)))
        if op == 'indexOf':
            s['v'] = draw(st.integers(0, 12))
        steps.append(s)
    return {'kind': 'pipeline', 'steps': steps, 'k': draw(st.integers(0, 6)),
            'via': draw(st.sampled_from(['var', 'var', 'data-iterator',
                                         'data-reiterable']))}


def _shard(run, n, shard):
    run.hyp('pipelines', pipelines(), lambda c: check_pipeline(run, c), n,
            shard=shard)


def _singles(run):
    # every operator alone, every k
    for op in sorted(OPS):
        for k in range(0, 5):
            s = {'op': op, 'lid': 1, 'S': 'dbl', 'P': 'm3', 'M': 'two',
                 'F': 'add', 'n': 2, 'm': 2, 'w': 2}
            check_pipeline(run, {'kind': 'pipeline', 'steps': [s], 'k': k})
    for op in sorted(END):
        s = {'op': op, 'lid': 1, 'P': 'm3', 'v': 4}
        check_pipeline(run, {'kind': 'pipeline', 'steps': [s], 'k': 1})
        # ... and behind a lazy stage with a lambda
        check_pipeline(run, {'kind': 'pipeline', 'steps': [
            {'op': 'select', 'lid': 1, 'S': 'dbl'}, dict(s, lid=2)], 'k': 1})
    # positions before the start
    for n in (-1, -2, -5):
        for m in (1, 3):
            for k in (0, 2):
                check_pipeline(run, {'kind': 'pipeline', 'steps': [
                    {'op': 'select', 'lid': 1, 'S': 'dbl'},
                    {'op': 'delete', 'lid': 2, 'n': n, 'm': m}], 'k': k})


def run(run):
    full = run.tier == 'thorough'
    _engine()
    common.std_context()
    run.shards(_singles, [()], watchdog=60)
    k = 16
    run.shards(_shard, [((60000 if full else 3200) // k, i)
                        for i in range(k)], watchdog=60)

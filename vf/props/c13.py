"""C13 - collection and query functions agree with their reference model."""
import collections.abc
import re

from hypothesis import strategies as st

from vf import common
from vf.models import collmodel as M
from yaql.language import utils as yutils

RULE = ('single calls of every function of the collections/queries modules '
        '(plus unpack/with) on tuples, mutable lists and one-shot iterators '
        'of 0-8 small integers (duplicates, ties frequent), dictionaries and '
        'sets; lambdas from families of predicates, selectors and two-'
        'argument functions; integer arguments in [-len-2, len+2]; pipelines '
        'of up to 4 chained operators ending in an optional reducer; '
        'algebraic laws as extra entries; collections with nulls for the '
        'null-safe entries; for the entries whose model is parametric in the '
        'elements (detected on the model: two random injective renamings '
        'give renamed results; 76 entries) collections of strings, floats, '
        '20-digit integers, frozen dictionaries and mixtures of them, '
        'expected = the renamed model result; non-trivial = non-empty collection '
        'and (boundary argument, or duplicate/tie in the data, or one-shot '
        'iterator input, or a pipeline of >=2 operators); distinct = '
        'distinct case')
ASSUMPTIONS = [
    'models are straight-line Python on materialised lists written from the '
    'docstrings; entries marked characterisation pin behaviour the '
    'docstrings leave open (splitWhere trailing chunk, splitAt slicing, '
    'negative counts of skip/take/slice raising, list() flattening only '
    'iterators) and can only report regressions',
    'negative positions of insert/insertMany are outside the '
    'documented domain and are not judged (excluded, counted)',
    'where the model predicts failure any exception is accepted',
    'renamed collections use truthy labels only (a model that looks at '
    'truthiness passes the parametricity test on the renamed integers) and '
    'no list-valued labels (flatten/list()/selectMany look inside lists by '
    'design); expected results with a dictionary as dictionary key are '
    'excluded (C10 known finding)',
]

SCALAR_SEL = [k for k in M.SEL if k != 'pair']
ALL_SEL_ENTRIES = ('select', 'map', 'selectMany')


def _engine():
    return common.engine({'yaql.limitIterators': 500})


def canon(x):
    if isinstance(x, (list, tuple)):
        return [canon(i) for i in x]
    if isinstance(x, (dict, yutils.FrozenDict)):
        return {k: canon(v) for k, v in x.items()}
    if isinstance(x, (set, frozenset)):
        return set(x)
    return x


def same(a, b):
    a, b = canon(a), canon(b)
    return a == b and _types(a) == _types(b)


def _types(x):
    if isinstance(x, list):
        return [_types(i) for i in x]
    if isinstance(x, dict):
        return {k: _types(v) for k, v in x.items()}
    if isinstance(x, bool):
        return 'bool'
    if isinstance(x, (int, float)):
        return 'num'
    return type(x).__name__


def _materialise(kind, L):
    if kind == 'tuple':
        return tuple(L)
    if kind == 'list':
        return list(L)
    if kind == 'iter':
        return iter(list(L))
    raise ValueError(kind)


def _sub(template, lam, suffix=''):
    t = template
    for ph, fam in (('{P2}', M.P2), ('{F2}', M.F2), ('{S2}', M.SEL),
                    ('{P}', M.PRED), ('{S}', M.SEL), ('{K}', M.SEL)):
        key = ph.strip('{}')
        if ph in t:
            t = t.replace(ph, fam[lam[key]][0])
    if suffix:
        t = re.sub(r'\$(n|m|x|y|o|c2)\b', lambda m_: '$' + m_.group(1) +
                   suffix, t)
    return t


def _env(case_args, lam, L, kind):
    a = dict(case_args)
    a['kind'] = kind
    for key, fam in (('P', M.PRED), ('S', M.SEL), ('S2', M.SEL),
                     ('K', M.SEL), ('F2', M.F2), ('P2', M.P2)):
        if key in lam:
            a[key] = fam[lam[key]][1]
    return a


def _evaluate(text, binds):
    ctx = common.child()
    for k, v in binds.items():
        ctx['$' + k] = v
    try:
        return ('ok', _engine()(text).evaluate(context=ctx))
    except Exception as e:   # noqa
        return ('exc', e)


def _model(fn, L, a):
    try:
        return ('ok', fn(L, a))
    except M.Unjudged:
        return ('unjudged', None)
    except M.Err:
        return ('err', None)
    except (TypeError, ValueError, IndexError, KeyError, ZeroDivisionError,
            StopIteration):
        return ('err', None)


def _judge(run, case, text, exp, got, ic, char):
    if exp[0] == 'unjudged':
        run.exclude('outside the documented domain (negative position)')
        return
    if exp[0] == 'err':
        if got[0] == 'ok':
            run.violate('value-where-model-predicts-failure', case,
                        '%s -> %r' % (text, canon(got[1])), input_class=ic)
        return
    if got[0] != 'ok':
        run.violate('raises-where-model-gives-value', case,
                    '%s raised %s: %s; model %r' % (
                        text, type(got[1]).__name__, got[1], exp[1]),
                    exc=got[1], input_class=ic)
    elif not same(got[1], exp[1]):
        run.violate('differs-from-model' + ('-characterisation'
                                             if char else ''), case,
                    '%s -> %r; model %r' % (text, canon(got[1]),
                                            canon(exp[1])), input_class=ic)


def _nontrivial(L, kind, args, steps=1):
    if not L:
        return False
    n = len(L)
    if kind == 'iter' or steps >= 2 or len(set(map(repr, L))) < n:
        return True
    for k in ('n', 'm'):
        if k in args and (args[k] <= 0 or args[k] >= n):
            return True
    return False


def check_single(run, case):
    e = M.ENTRIES[case['fn']]
    L = list(case['c'])
    kind = case['kind']
    args = {k: common.dec(v) for k, v in case.get('args', {}).items()}
    lam = case.get('lam', {})
    text = _sub(e.template, lam)
    binds = dict(args)
    binds['c'] = _materialise(kind, L)
    for k in ('o', 'c2'):
        if k in args:
            # collection-typed *arguments* arrive as one-shot iterators too
            # (when the expression mentions them once)
            lazy = case.get('argkind') == 'iter' and \
                len(re.findall(r'\$%s\b' % k, text)) == 1
            binds[k] = iter(list(args[k])) if lazy else tuple(args[k])
    binds['tree'] = yutils.FrozenDict(
        {k: tuple(v) for k, v in M.TREE.items()})
    env = _env(args, lam, L, kind)
    if isinstance(binds.get('o'), collections.abc.Iterator):
        env['okind'] = 'iter'
    exp = _model(e.model, L, env)
    got = _evaluate(text, binds)
    run.case(case, _nontrivial(L, kind, args),
             cls=['single', 'fn=' + case['fn'], 'kind=' + kind] + (
                 ['lazy-argument'] if any(isinstance(
                     binds.get(k), collections.abc.Iterator)
                     for k in ('o', 'c2')) else []))
    _judge(run, case, '%s with c=%r(%s) %r' % (text, L, kind, args), exp, got,
           case['fn'] + '/' + kind, e.char)


def check_pipeline(run, case):
    L = list(case['c'])
    kind = case['kind']
    text = '$c'
    binds = {'c': _materialise(kind, L)}
    cur = ('ok', L)
    for i, step in enumerate(case['steps']):
        e = M.ENTRIES[step['fn']]
        args = {k: common.dec(v) for k, v in step.get('args', {}).items()}
        lam = step.get('lam', {})
        t = _sub(e.template, lam, suffix=str(i))
        text = t.replace('$c', '(' + text + ')' if i else text, 1)
        for k, v in args.items():
            binds['%s%d' % (k, i)] = tuple(v) if k in ('o', 'c2') else v
        if cur[0] == 'ok':
            cur = _model(e.model, cur[1] if isinstance(cur[1], list)
                         else cur[1], _env(args, lam, L, 'tuple'))
            if cur[0] == 'ok' and i < len(case['steps']) - 1 and \
                    not isinstance(cur[1], list):
                cur = ('err', None)
    got = _evaluate(text, binds)
    run.case(case, _nontrivial(L, kind, {}, len(case['steps'])),
             cls=['pipeline', 'steps=%d' % len(case['steps'])])
    if cur[0] == 'err' and got[0] == 'ok':
        # the model evaluates every stage eagerly; a lazy pipeline may
        # legitimately never reach the element that fails
        run.exclude('pipeline: model predicts a failure that laziness may '
                    'skip')
        return
    _judge(run, case, '%s with c=%r(%s) binds %r' % (
        text, L, kind, {k: v for k, v in binds.items() if k != 'c'}), cur,
        got, 'pipeline:' + '>'.join(s['fn'] for s in case['steps']), False)


def check_dict(run, case):
    e = M.DICT_ENTRIES[case['fn']]
    args = {k: common.dec(v) for k, v in case['args'].items()}
    d = dict(args.pop('d'))
    a = dict(args)
    binds = {k: yutils.convert_input_data(v) for k, v in args.items()}
    binds['d'] = yutils.convert_input_data(d)
    exp = _model(e.model, d, a)
    got = _evaluate(e.template, binds)
    run.case(case, len(d) >= 1, cls=['dict', 'fn=' + case['fn']])
    _judge(run, case, '%s with d=%r %r' % (e.template, d, args), exp, got,
           'dict:' + case['fn'], e.char)


def check_set(run, case):
    e = M.SET_ENTRIES[case['fn']]
    args = {k: common.dec(v) for k, v in case['args'].items()}
    s = set(args.pop('s'))
    a = dict(args)
    a['t'] = set(a['t'])
    binds = dict(a)
    binds['s'] = frozenset(s)
    binds['t'] = frozenset(a['t'])
    binds['l'] = tuple(a['l'])
    exp = _model(e.model, s, a)
    got = _evaluate(e.template, binds)
    run.case(case, len(s) >= 1, cls=['set', 'fn=' + case['fn']])
    _judge(run, case, '%s with s=%r %r' % (e.template, s, args), exp, got,
           'set:' + case['fn'], e.char)


# ---- relabelling: element values other than small integers ----------------
#
# Many entries do not look inside the elements: they move, drop, repeat or
# compare them for equality.  For those the model is *parametric*: renaming
# the elements by an injective function commutes with it.  That is detected
# on the model itself (two random injective renamings into 1000.. must give
# results that are renamings of each other); for the detected entries yaql is
# run on collections of strings, floats, large integers, frozen dictionaries
# and mixtures, and must return the renamed model result.

LABELS = {
    'str': lambda i: 's%d' % i,
    'float': lambda i: i + 0.5,
    'bigint': lambda i: 10 ** 20 + i,
    'dict': lambda i: yutils.FrozenDict({'k': i}),
    # dictionaries with two keys; equal elements of one collection are
    # spelled with their keys in different orders (see check_relabel)
    'dict2': lambda i: yutils.FrozenDict({'k': i, 'z': 's'}),
    'mixed': lambda i: ('s%d' % i, i + 0.25, 5000 + i,
                        yutils.FrozenDict({'k': i}))[i % 4],
    # (no falsy labels: the renamed integers are all truthy, so a model that
    # looks at truthiness - all(), any() without predicate - still passes
    # the parametricity test)
    # host records: the collection arrives as host data - a tuple / list of
    # python lists - and is converted the way evaluate(data=..) converts it
    # (see check_relabel); inside yaql the records are tuples
    'hostlists': lambda i: ('p', i),
    'strs': lambda i: (' ', 's', 'S', '0', 's ', '\u00e9', 'e\u0301')[i + 2]
    if -2 <= i <= 4 else 'x%d' % i,
}
_VALUE_ARGS = ('x', 'y', 'o', 'c2')


def _rename(v, f):
    if isinstance(v, bool) or v is None:
        return v
    if isinstance(v, int):
        return f(v) if v >= 1000 else v
    if isinstance(v, (list, tuple)):
        return [_rename(i, f) for i in v]
    if isinstance(v, dict):
        return {_rename(k, f): _rename(w, f) for k, w in v.items()}
    if isinstance(v, (set, frozenset)):
        return {_rename(i, f) for i in v}
    return v


def _dict_keyed_by_container(v):
    if isinstance(v, dict):
        return any(isinstance(k, (dict, yutils.FrozenDict, tuple, list))
                   for k in v) or \
            any(_dict_keyed_by_container(w) for w in v.values())
    if isinstance(v, (list, tuple)):
        return any(_dict_keyed_by_container(i) for i in v)
    if isinstance(v, (set, frozenset)):
        return any(isinstance(i, (tuple, list, dict, yutils.FrozenDict))
                   for i in v)
    return False


# entries that look into elements which are sequences themselves
LOOKS_INTO_SEQUENCES = ('flatten',)


def _shifted(e, L, args, pi, kind='tuple'):
    a = dict(args)
    for k in _VALUE_ARGS:
        if k in a:
            a[k] = [pi[i] for i in a[k]] if isinstance(a[k], list) \
                else pi[a[k]]
    return _model(e.model, [pi[i] if i is not None else None for i in L],
                  _env(a, {}, L, kind))


_PARAM = {}


def parametric_entries():
    if _PARAM:
        return _PARAM['names']
    import random
    rnd = random.Random(20261002)
    dom = list(range(-2, 5))
    names = []
    for fn in sorted(M.ENTRIES):
        e = M.ENTRIES[fn]
        if '{' in e.template or 'tree' in e.template or \
                not set(e.args) <= {'n', 'm', 'x', 'y', 'o', 'c2'}:
            continue
        ok, informative = True, 0
        for _ in range(60):
            L = [rnd.choice(dom + ([None] if e.elems == 'intnull' else []))
                 for _ in range(rnd.randint(0, 7))]
            args = {}
            for a in e.args:
                if a == 'n':
                    args[a] = rnd.randint(-2, len(L) + 2)
                elif a == 'm':
                    args[a] = rnd.randint(-1, 4)
                elif a in ('x', 'y'):
                    args[a] = rnd.choice(dom)
                else:
                    args[a] = [rnd.choice(dom) for _ in range(
                        rnd.randint(0, 4))]
            p1 = dict(zip(dom, rnd.sample(range(1000, 1007), 7)))
            p2 = dict(zip(dom, rnd.sample(range(1000, 1007), 7)))
            try:
                r1 = _shifted(e, L, args, p1)
                r2 = _shifted(e, L, args, p2)
                inv1 = {v: k for k, v in p1.items()}
                if r1[0] != r2[0]:
                    ok = False
                elif r1[0] == 'ok':
                    m12 = _rename(r1[1], lambda v: p2[inv1[v]])
                    if not same(m12, r2[1]):
                        ok = False
                    if L:
                        informative += 1
            except Exception:   # noqa
                ok = False
            if not ok:
                break
        if ok and informative >= 10:
            names.append(fn)
    _PARAM['names'] = names
    return names


def check_relabel(run, case):
    fn = case['fn']
    if fn not in parametric_entries():
        run.exclude('model of this entry is not parametric in the elements')
        return
    if case['label'] == 'hostlists' and any(
            k in fn for k in LOOKS_INTO_SEQUENCES):
        run.exclude('entry looks into elements that are sequences')
        return
    e = M.ENTRIES[fn]
    L = list(case['c'])
    kind = case['ckind']
    f = LABELS[case['label']]
    args = {k: common.dec(v) for k, v in case.get('args', {}).items()}
    pi = {i: 1000 + (i + 2) for i in range(-2, 5)}
    inv = {v: k for k, v in pi.items()}
    exp = _shifted(e, L, args, pi, kind)
    if exp[0] == 'ok':
        exp = ('ok', _rename(exp[1], lambda v: f(inv[v])))
        if _dict_keyed_by_container(exp[1]):
            run.exclude('expected result has a container as dictionary key '
                        'or set member (cannot be finalised: known finding '
                        'of C10)')
            return
    binds = {}
    for k, v in args.items():
        if k in ('o', 'c2'):
            binds[k] = tuple(f(i) for i in v)
        elif k in ('x', 'y'):
            binds[k] = f(v)
        else:
            binds[k] = v
    real = [f(i) if i is not None else None for i in L]
    if case['label'] == 'dict2':
        # equal dictionaries are equal elements whatever the order their
        # keys were inserted in
        real = [x if j % 2 == 0 or x is None else yutils.FrozenDict(
            list(x.items())[::-1]) for j, x in enumerate(real)]
        for k in ('o', 'c2'):
            if isinstance(binds.get(k), tuple):
                binds[k] = tuple(yutils.FrozenDict(list(x.items())[::-1])
                                 for x in binds[k])
    if case['label'] == 'hostlists':
        raw = [list(x) if x is not None else None for x in real]
        real = list(yutils.convert_input_data(
            raw if kind == 'list' else tuple(raw)))
    binds['c'] = _materialise(kind, real)
    got = _evaluate(e.template, binds)
    run.case(case, _nontrivial(L, kind, args),
             cls=['relabelled', 'label=' + case['label'], 'fn=' + fn])
    _judge(run, case, '%s with c=%r(%s) %r' % (
        e.template, real, kind, {k: v for k, v in binds.items()
                                 if k != 'c'}), exp, got,
        '%s/label:%s' % (fn, case['label']), e.char)


REPLAY = {'single': check_single, 'pipeline': check_pipeline,
          'dict': check_dict, 'set': check_set, 'relabel': check_relabel}

# --------------------------------------------------------------------------

elems = st.integers(-2, 4)
lists = st.lists(elems, max_size=8)


@st.composite
def _args_for(draw, e, L, fn):
    args, lam = {}, {}
    n = len(L)
    for a in e.args:
        if a == 'n':
            args['n'] = draw(st.one_of(st.integers(-n - 2, n + 2),
                                       st.sampled_from([0, 1, n, n + 1])))
        elif a == 'm':
            args['m'] = draw(st.integers(-1, 4))
        elif a in ('x', 'y'):
            args[a] = draw(elems)
        elif a in ('o', 'c2'):
            args[a] = draw(st.lists(elems, max_size=5))
        elif a in ('P',):
            lam['P'] = draw(st.sampled_from(sorted(M.PRED)))
        elif a in ('S', 'S2', 'K'):
            pool = sorted(M.SEL) if fn in ALL_SEL_ENTRIES else SCALAR_SEL
            lam[a] = draw(st.sampled_from(pool))
        elif a == 'F2':
            lam['F2'] = draw(st.sampled_from(sorted(M.F2)))
        elif a == 'P2':
            lam['P2'] = draw(st.sampled_from(sorted(M.P2)))
    return args, lam


@st.composite
def single_cases(draw):
    fn = draw(st.sampled_from(sorted(M.ENTRIES)))
    e = M.ENTRIES[fn]
    L = draw(lists)
    if e.elems == 'intnull':
        L = draw(st.lists(st.one_of(elems, st.none(), st.none()),
                          max_size=7))
    args, lam = draw(_args_for(e, L, fn))
    return {'fn': fn, 'c': L, 'ckind': draw(st.sampled_from(e.kinds)),
            'argkind': draw(st.sampled_from(['tuple', 'iter'])),
            'args': {k: common.enc(v) for k, v in args.items()}, 'lam': lam}


@st.composite
def relabel_cases(draw):
    names = parametric_entries()
    # entries that compare or hash elements are drawn as often as all the
    # others together
    eq = [n for n in names if any(k in n.lower() for k in (
        'distinct', 'indexof', 'contains', 'in', 'count', 'groupby',
        'todict', 'replace', 'delete'))]
    fn = draw(st.sampled_from(eq if eq and draw(st.booleans()) else names))
    e = M.ENTRIES[fn]
    L = draw(lists)
    if e.elems == 'intnull':
        L = draw(st.lists(st.one_of(elems, st.none()), max_size=7))
    args, lam = draw(_args_for(e, [x for x in L if x is not None], fn))
    return {'kind': 'relabel', 'fn': fn, 'c': L,
            'ckind': draw(st.sampled_from(e.kinds)),
            'label': draw(st.sampled_from(sorted(LABELS) + ['dict2'])),
            'args': {k: common.enc(v) for k, v in args.items()}}


@st.composite
def pipeline_cases(draw):
    L = draw(lists)
    steps = []
    for i in range(draw(st.integers(2, 4))):
        fn = draw(st.sampled_from(M.PIPE_OPS))
        e = M.ENTRIES[fn]
        args, lam = draw(_args_for(e, L, 'pipeline'))
        if 'n' in args:
            args['n'] = abs(args['n'])
        steps.append({'fn': fn, 'args': {k: common.enc(v)
                                         for k, v in args.items()},
                      'lam': lam})
    if draw(st.booleans()):
        fn = draw(st.sampled_from(M.PIPE_END))
        e = M.ENTRIES[fn]
        args, lam = draw(_args_for(e, L, fn))
        steps.append({'fn': fn, 'args': {k: common.enc(v)
                                         for k, v in args.items()},
                      'lam': lam})
    return {'kind': 'pipeline', 'c': L, 'ckind': draw(st.sampled_from(
        ['tuple', 'list', 'iter'])), 'steps': steps}


keys = st.sampled_from(['a', 'b', 'c', 1, 2, None])
values = st.one_of(elems, st.sampled_from(['v', None]),
                   st.lists(elems, max_size=3),
                   st.dictionaries(st.sampled_from(['a', 'b']), elems,
                                   max_size=2))
dicts = st.dictionaries(keys, values, max_size=4)
# dictionaries nested several levels deep with lists at the leaves, sharing
# keys so that deep merges have something to merge
deep_dicts = st.recursive(
    st.one_of(elems, st.lists(elems, max_size=3), st.none()),
    lambda ch: st.dictionaries(st.sampled_from(['a', 'b', 'c']), ch,
                               max_size=3), max_leaves=8).filter(
    lambda v: isinstance(v, dict))


@st.composite
def dict_cases(draw):
    fn = draw(st.sampled_from(sorted(M.DICT_ENTRIES)))
    d = draw(dicts)
    args = {'d': list(d.items()), 'k': draw(keys), 'k2': draw(keys),
            'x': draw(values), 'd2': draw(dicts),
            'n': draw(st.integers(0, 3))}
    if fn in ('set-inline', 'map-expr', 'dict-fn'):
        args['k'] = draw(st.sampled_from(['a', 'b', 'q']))
    if fn.startswith('mergeWith') and draw(st.booleans()):
        args['d'] = list(draw(deep_dicts).items())
        args['d2'] = draw(deep_dicts)
        args['n'] = draw(st.integers(-1, 4))
    elif fn.startswith('mergeWith'):
        # both dictionaries hold lists under the same keys; the lists
        # repeat items (within one list and across the two)
        dup = st.lists(st.integers(0, 2), min_size=1, max_size=4)
        ks = draw(st.lists(st.sampled_from(['a', 'b', 'c']), min_size=1,
                           max_size=3, unique=True))
        args['d'] = [(k, draw(dup)) for k in ks]
        args['d2'] = {k: draw(dup) for k in ks}
        if draw(st.booleans()):
            args['d'] = [('x', dict(args['d']))]
            args['d2'] = {'x': args['d2']}
        args['n'] = draw(st.integers(-1, 4))
    return {'kind': 'dict', 'fn': fn,
            'args': {k: common.enc(v) for k, v in args.items()}}


@st.composite
def set_cases(draw):
    fn = draw(st.sampled_from(sorted(M.SET_ENTRIES)))
    el = st.one_of(elems, st.sampled_from(['a', 'b']))
    args = {'s': draw(st.lists(el, max_size=5)),
            't': draw(st.lists(el, max_size=5)),
            'l': draw(st.lists(el, max_size=6)), 'x': draw(el),
            'y': draw(el)}
    return {'kind': 'set', 'fn': fn,
            'args': {k: common.enc(v) for k, v in args.items()}}


def _shard(run, which, n, shard):
    if which == 'single':
        run.hyp('single', single_cases(), lambda c: check_single(
            run, _normalise_single(c)), n, shard=shard)
    elif which == 'pipeline':
        run.hyp('pipelines', pipeline_cases(), lambda c: check_pipeline(
            run, _normalise_pipe(c)), n, shard=shard)
    elif which == 'relabel':
        run.hyp('relabelled', relabel_cases(), lambda c: check_relabel(
            run, c), n, shard=shard)
    elif which == 'dict':
        run.hyp('dicts', dict_cases(), lambda c: check_dict(run, c), n,
                shard=shard)
    else:
        run.hyp('sets', set_cases(), lambda c: check_set(run, c), n,
                shard=shard)


def _normalise_single(c):
    """replay format: {'kind': <collection kind>, 'fn', 'c', 'args', 'lam'}
    dispatched through REPLAY['single'] by the 'replay' key"""
    return {'kind': c['ckind'], 'fn': c['fn'], 'c': c['c'],
            'argkind': c.get('argkind', 'tuple'),
            'args': c['args'], 'lam': c['lam'], 'replay': 'single'}


def _normalise_pipe(c):
    return {'kind': c['ckind'], 'c': c['c'], 'steps': c['steps'],
            'replay': 'pipeline'}


def _replay_dispatch(run, case):
    {'single': check_single, 'pipeline': check_pipeline}[
        case['replay']](run, case)


# collection cases carry the collection kind in 'kind'; route them
for _k in ('tuple', 'list', 'iter'):
    REPLAY[_k] = _replay_dispatch


def run(run):
    full = run.tier == 'thorough'
    _engine()
    common.std_context()
    k = 4
    jobs = []
    for which, nq, nf in (('single', 6000, 160000),
                          ('pipeline', 1600, 50000), ('dict', 1200, 30000),
                          ('set', 800, 20000), ('relabel', 3000, 80000)):
        for i in range(k):
            jobs.append((which, (nf if full else nq) // k, i))
    run.shards(_shard, jobs)
    run.extra['entries_with_parametric_model'] = len(parametric_entries())
    run.extra['functions_modelled'] = (len(M.ENTRIES) + len(M.DICT_ENTRIES)
                                       + len(M.SET_ENTRIES))

"""C10 - data round-trips and every result is finalised into plain data."""
import collections
import collections.abc
import datetime
import re

from hypothesis import strategies as st

from vf import common
from yaql import yaql_interface
from yaql.language import utils as yutils

RULE = ('(1) JSON-like documents of depth <=4 with tuples, sets, frozensets '
        'and generators substituted, expression $, through evaluate() with '
        'and without a context, with input conversion off, through '
        'yaql.eval, through yaql.eval while a generator of the document '
        'itself calls yaql.eval, and bound by create_context(data=...) under '
        'a context that already sees another document; the smallest '
        'documents (null, false, 0, empty) by every way; (2) expressions nesting '
        'every kind of lazy/frozen value the library returns (dict views, '
        'ordering objects, where/select/zip/enumerate iterators, sets, '
        'frozen dicts, tuples, groupBy, memorize, regex results) as list '
        'elements, dict values, dict keys and set members; all under the 4 '
        'combinations of convertTuplesToLists x convertSetsToLists, plus '
        'YaqlInterface calls; engines configured from one reused options '
        'dictionary; contexts composed from a standard and a hand-made '
        'context; non-trivial = the unfinalised value contains a '
        'non-plain container; distinct = distinct (expression, data, '
        'options)')
ASSUMPTIONS = [
    'the unfinalised value comes from a second evaluation with '
    'yaql.convertOutputData off (walking it consumes one-shot iterators)',
    'containers in hashable positions (dict keys, members of an output set) '
    'cannot be finalised into plain data by any converter - recorded as a '
    'known finding and excluded from the success requirement, counted',
]

OPTS = [(True, False), (True, True), (False, False), (False, True)]


def _engine(tuples_to_lists, sets_to_lists, out=True):
    return common.engine({'yaql.convertTuplesToLists': tuples_to_lists,
                          'yaql.convertSetsToLists': sets_to_lists,
                          'yaql.convertOutputData': out,
                          'yaql.limitIterators': 1000})


SCALARS = (type(None), bool, int, float, str, datetime.datetime,
           datetime.timedelta, re.Pattern)


def bad_nodes(x, t2l, s2l, path='$', out=None, depth=0):
    """nodes of a finalised result that are not plain data"""
    if out is None:
        out = []
    if depth > 40:
        return out
    if isinstance(x, SCALARS):
        return out
    if type(x) is dict:
        for k, v in x.items():
            bad_nodes(k, t2l, s2l, path + '.<key>', out, depth + 1)
            bad_nodes(v, t2l, s2l, path + '[%r]' % (k,), out, depth + 1)
    elif type(x) is list:
        for i, v in enumerate(x):
            bad_nodes(v, t2l, s2l, path + '[%d]' % i, out, depth + 1)
    elif type(x) is tuple and not t2l:
        for i, v in enumerate(x):
            bad_nodes(v, t2l, s2l, path + '[%d]' % i, out, depth + 1)
    elif type(x) is set and not s2l:
        for v in x:
            bad_nodes(v, t2l, s2l, path + '{}', out, depth + 1)
    else:
        out.append((path, type(x).__name__))
    return out


def structure(x, depth=0, hashpos=False, acc=None):
    """census of the *unfinalised* value: kinds of non-plain containers and
    whether a container sits in a hashable position.  Consumes iterators."""
    if acc is None:
        acc = {'kinds': collections.Counter(), 'container_in_key': False,
               'container_in_set': False}
    if depth > 40 or isinstance(x, SCALARS):
        return acc
    name = type(x).__name__
    is_container = isinstance(x, (collections.abc.Mapping,
                                  collections.abc.Iterable))
    if is_container and hashpos:
        acc[hashpos] = True
    if isinstance(x, collections.abc.Mapping):
        if type(x) is not dict:
            acc['kinds'][name] += 1
        for k, v in x.items():
            structure(k, depth + 1, 'container_in_key', acc)
            structure(v, depth + 1, False, acc)
    elif isinstance(x, (set, frozenset)) or (
            isinstance(x, collections.abc.Set) and not isinstance(
                x, collections.abc.MappingView)):
        acc['kinds'][name] += 1
        for v in x:
            structure(v, depth + 1, 'container_in_set', acc)
    elif isinstance(x, collections.abc.Iterable):
        if type(x) is not list:
            acc['kinds'][name] += 1
        try:
            for v in x:
                structure(v, depth + 1, False, acc)
        except Exception:   # noqa
            acc['kinds']['<iteration-failed>'] += 1
    return acc


# --------------------------------------------------------------------------
# data: JSON spec -> fresh python objects (generators must be rebuilt)

def build(spec):
    if isinstance(spec, dict) and '$c' in spec:
        kind = spec['$c']
        items = [] if kind == 'freshgen' else [
            build(i) for i in spec.get('v', [])]
        if kind == 'list':
            return items
        if kind == 'tuple':
            return tuple(items)
        if kind == 'set':
            return set(items)
        if kind == 'frozenset':
            return frozenset(items)
        if kind == 'gen':
            return (i for i in items)
        if kind == 'freshgen':
            # every item is built only when the consumer asks for it, and
            # nothing else keeps it alive (a cursor / JSON-lines reader)
            return (build(i) for i in spec.get('v', []))
        if kind == 'iter':
            return iter(items)
        if kind == 'dict':
            return {build(k): build(v) for k, v in spec['kv']}
    return spec


def canonical(spec, s2l, in_set=False):
    """what `$` must return for the document"""
    if isinstance(spec, dict) and '$c' in spec:
        kind = spec['$c']
        if kind == 'dict':
            return {canonical(k, s2l): canonical(v, s2l)
                    for k, v in spec['kv']}
        items = [canonical(i, s2l, kind in ('set', 'frozenset'))
                 for i in spec.get('v', [])]
        if kind in ('set', 'frozenset'):
            if s2l:
                return ('multiset', sorted(map(repr, set_dedup(items))))
            return set(items)
        return items
    return spec


def set_dedup(items):
    out = []
    for i in items:
        if i not in out:
            out.append(i)
    return out


def _cmp_form(x, s2l):
    """sets converted to lists have no defined order: compare as multisets"""
    if isinstance(x, dict):
        return {k: _cmp_form(v, s2l) for k, v in x.items()}
    if isinstance(x, (list, tuple)):
        return [_cmp_form(v, s2l) for v in x]
    return x


scalars = st.one_of(st.none(), st.booleans(), st.integers(-5, 5),
                    st.sampled_from(['a', 'b', '', 'é']),
                    st.floats(-2, 2, allow_nan=False))
hashable_scalars = st.one_of(st.integers(-5, 5), st.sampled_from(['a', 'b']),
                             st.booleans(), st.none())


def documents(depth=3):
    if depth == 0:
        return scalars

    @st.composite
    def doc(draw):
        k = draw(st.integers(0, 9))
        sub = documents(depth - 1)
        if k <= 2:
            return draw(scalars)
        if k <= 5:
            kind = draw(st.sampled_from(['list', 'list', 'tuple', 'gen',
                                         'iter', 'freshgen', 'freshgen']))
            return {'$c': kind, 'v': draw(st.lists(sub, max_size=4))}
        if k <= 7:
            keys = draw(st.lists(hashable_scalars, max_size=3, unique_by=repr))
            return {'$c': 'dict', 'kv': [[kk, draw(sub)] for kk in keys]}
        kind = draw(st.sampled_from(['set', 'frozenset']))
        return {'$c': kind, 'v': draw(st.lists(hashable_scalars, max_size=4,
                                               unique_by=lambda v: (v == v, v)
                                               ))}
    return doc()


def fresh_generator_docs():
    """generators yielding freshly built nested containers"""
    item = st.recursive(
        st.integers(0, 9),
        lambda ch: st.builds(lambda v: {'$c': 'list', 'v': v},
                             st.lists(ch, min_size=1, max_size=3)),
        max_leaves=6)
    return st.builds(lambda v, wrap: wrap({'$c': 'freshgen', 'v': v}),
                     st.lists(item, min_size=3, max_size=8),
                     st.sampled_from([
                         lambda g: g,
                         lambda g: {'$c': 'list', 'v': [g]},
                         lambda g: {'$c': 'dict', 'kv': [['k', g]]},
                         lambda g: {'$c': 'freshgen', 'v': [g, g]}]))


def _has_set_list_clash(spec):
    """1 and True (or 0 and False) collapse in python sets"""
    return False


def _roundtrip(spec, t2l, s2l, how):
    """the document through `$` by one of the public ways"""
    import yaql as _yaql
    if how == 'raw-input':
        eng = common.engine({'yaql.convertTuplesToLists': t2l,
                             'yaql.convertSetsToLists': s2l,
                             'yaql.convertInputData': False,
                             'yaql.limitIterators': 1000})
        return eng('$').evaluate(data=build(spec), context=common.child())
    if how == 'no-context':
        return _engine(t2l, s2l)('$').evaluate(data=build(spec))
    if how == 'create_context':
        # the document is bound by yaql.create_context(data=...), in a
        # context that can already see another document as `$`
        from yaql.language import contexts as _contexts
        outer = _contexts.Context()
        outer['$'] = 'the previous document'
        inner = _yaql.create_context(
            data=build(spec), context=outer.create_child_context())
        return _engine(t2l, s2l)('$').evaluate(context=inner)
    if how == 'yaql.eval':
        return _yaql.eval('$', build(spec))
    if how == 'yaql.eval-reentrant':
        # while the library pulls from a generator of the document, the host
        # generator evaluates something else through yaql.eval
        def gen():
            _yaql.eval('[$, $.other]', {'other': [0]})
            yield 1
            yield 2
        r = _yaql.eval('[$.gen.toList(), $.doc, $.gen2.len()]',
                       {'doc': build(spec), 'gen': gen(), 'gen2': gen()})
        if r[0] != [1, 2] or r[2] != 2:
            raise AssertionError('generator results %r' % (r,))
        return r[1]
    return _engine(t2l, s2l)('$').evaluate(
        data=build(spec), context=common.child())


def check_roundtrip(run, case):
    spec = case['doc']
    t2l, s2l = case['opts']
    how = case.get('how', 'evaluate')
    if how.startswith('yaql.eval'):
        t2l, s2l = True, False         # the options of yaql.eval's engine
    try:
        got = ('ok', _roundtrip(spec, t2l, s2l, how))
    except Exception as e:   # noqa
        got = ('exc', e)
    nt = _nontrivial_doc(spec)
    run.case(case, nt, cls=['roundtrip', 'how=' + how, 'opts=%s%s' % (
        'T' if t2l else 't', 'S' if s2l else 's')])
    if got[0] != 'ok':
        run.violate('roundtrip-raises', case, '$ on %r raised %s: %s' % (
            spec, type(got[1]).__name__, got[1]), exc=got[1],
            input_class='doc')
        return
    exp = canonical(spec, s2l)
    if not _same_doc(got[1], exp, s2l):
        run.violate('roundtrip-differs', case, '$ on %r -> %r, expected %r'
                    % (spec, got[1], exp), input_class='doc')
        return
    bad = bad_nodes(got[1], t2l, s2l)
    if bad:
        run.violate('non-plain-node-in-result', case,
                    '$ on %r -> %r: %r' % (spec, got[1], bad[:3]),
                    input_class='doc:' + bad[0][1])


def _same_doc(got, exp, s2l):
    if isinstance(exp, tuple) and exp and exp[0] == 'multiset':
        return isinstance(got, list) and sorted(map(repr, got)) == exp[1]
    if isinstance(exp, dict):
        return type(got) is dict and set(got) == set(exp) and all(
            _same_doc(got[k], exp[k], s2l) for k in exp)
    if isinstance(exp, list):
        return isinstance(got, (list, tuple)) and len(got) == len(exp) and \
            all(_same_doc(g, e, s2l) for g, e in zip(got, exp))
    if isinstance(exp, set):
        return type(got) is set and got == exp
    return type(got) is type(exp) and (got == exp)


def _nontrivial_doc(spec):
    if isinstance(spec, dict) and '$c' in spec:
        if spec['$c'] in ('tuple', 'set', 'frozenset', 'gen', 'iter',
                          'freshgen'):
            return True
        subs = spec.get('v', []) + [v for k, v in spec.get('kv', [])]
        return any(_nontrivial_doc(s) for s in subs)
    return False


# --------------------------------------------------------------------------
# (2) result kinds

ATOMS = [
    '[1, 2]', '{a => 1}', 'set(1, 2)', '{a => 1, b => 2}.keys()',
    '{a => 1}.values()', '{a => [1]}.items()', '[3, 1, 2].orderBy($)',
    '[3, 1].orderBy($).thenBy(-$)', '[1, 2].where($ > 0)',
    '[1, 2].select($ + 1)', '[1, 2, 2].toSet()', '[[1, 2]].toDict($[0], $)',
    '[1, 2, 3].groupBy($ mod 2)', '[1, 2].zip([3, 4])', '[5, 6].enumerate()',
    '{a => 1}.set(b, 2)', '[1, 2].reverse()', 'range(3)',
    "'abc'.toCharArray()", "regex('a').searchAll('aa')",
    "regex('(a)').search('a', $)", '[1, 2].memorize()', '$', '$d', '$s', '$g',
    '[1, 2].skip(1)', '[1, 2].take(1)', '[1, 2].distinct()',
    '[1, 2].append(3)', '[[1], [2]].selectMany($)', '[1, 2].accumulate($1 + $2)',
    "'a b'.split(' ')", '[1, 2].slice(1)', '[1, 2, 3].splitAt(1)',
    '{a => 1}.items().toDict($[0], $[1])', 'dict(a => [1, 2])',
    'list(range(2), [3])', '[1, 2].toList()', '{a => 1}.toList()',
    'set(1).union(set(2))', '[1, 2].insert(0, 0)', '[1, 2].delete(0)',
    '{a => {b => set(1)}}', '[1, 2].cycle().take(3)', 'repeat(1, 2)',
    '[1, 2].zipLongest([3])', "{a => 1}.keys().select($)", 'now().date',
    "characters(digits => true)", '[2, 1].orderByDescending($)',
    '[1, 2].join([1, 2], $1 = $2, [$1, $2])', '[1, 2].mergeWith([3])'
    if False else '{a => 1}.mergeWith({b => 2})',
    'let(x => [1, 2]) -> $x', '[1, 2].select([$, {k => $}])',
]
WRAPS = [
    '[{0}]', '[{0}, {0}]', '{{k => {0}}}', '{{{0} => 1}}', 'set({0})',
    '[{0}].toSet()', 'list({0})', 'dict(a => {0})', '[{0}].select($)',
    '{0}', '[[{0}]]', '{{a => [{0}]}}', '[{0}].first()', '{0}.toList()'
    if False else '[{0}].toList()', 'set(1, {0})', '{{a => 1, {0} => 2}}',
    '[{0}].where(true)', '[1, {0}].orderBy(1)', '[{0}].memorize()',
    'switch(true => {0})', 'coalesce(null, {0})', '[{0}][0]',
]


def _data():
    return {'$': [1, (2, 3), {'a': {4}}], '$d': {'k': (1, 2), 2: [3]},
            '$s': {1, 'a'}, '$g': (i for i in [1, [2]])}


def _eval(text, t2l, s2l, out):
    ctx = common.child()
    for k, v in _data().items():
        ctx[k] = yutils.convert_input_data(v)
    return _engine(t2l, s2l, out)(text).evaluate(context=ctx)


def check_kind(run, case):
    text = case['text']
    t2l, s2l = case['opts']
    try:
        raw = ('ok', _eval(text, t2l, s2l, False))
    except Exception as e:   # noqa
        raw = ('exc', e)
    if raw[0] != 'ok':
        run.case(case, False, cls=['kinds', 'evaluation-fails'])
        return
    st_ = structure(raw[1])
    try:
        fin = ('ok', _eval(text, t2l, s2l, True))
    except Exception as e:   # noqa
        fin = ('exc', e)
    hashpos = []
    if st_['container_in_key']:
        hashpos.append('container-as-dict-key')
    if st_['container_in_set'] and not s2l:
        hashpos.append('container-in-output-set')
    run.case(case, bool(st_['kinds']),
             fp=(text, case['opts']),
             cls=['kinds'] + ['raw:' + k for k in st_['kinds']] + hashpos)
    ic = '+'.join(hashpos) or 'no-container-in-hashable-position'
    if fin[0] != 'ok':
        run.violate('finalisation-raises', case,
                    '%s evaluates (convertOutputData off) but its '
                    'finalisation raised %s: %s' % (
                        text, type(fin[1]).__name__, fin[1]),
                    exc=fin[1], input_class=ic)
        return
    bad = bad_nodes(fin[1], t2l, s2l)
    if bad:
        run.violate('non-plain-node-in-result', case,
                    '%s (tuples->lists %s, sets->lists %s) -> %r: non-plain '
                    'nodes %r' % (text, t2l, s2l, fin[1], bad[:3]),
                    input_class='node:' + bad[0][1])
    if case.get('interface'):
        yi = yaql_interface.YaqlInterface(common.child(),
                                          _engine(t2l, s2l))
        for k, v in _data().items():
            yi[k] = yutils.convert_input_data(v)
        try:
            r = yi(text)
        except Exception as e:   # noqa
            run.violate('interface-finalisation-raises', case,
                        'YaqlInterface(%r) raised %s: %s' % (
                            text, type(e).__name__, e), exc=e,
                        input_class=ic)
            return
        bad = bad_nodes(r, t2l, s2l)
        if bad:
            run.violate('interface-non-plain-node', case,
                        'YaqlInterface(%r) -> %r: %r' % (text, r, bad[:3]),
                        input_class='node:' + bad[0][1])


INTERFACE_CALLS = [
    # (receiver or None, name, args)
    (None, 'range', (3,)), (None, 'list', ((1, 2), {3})),
    (None, 'dict', ((('a', (1,)),),)), (None, 'set', (1, 2)),
    ([1, (2,)], 'toList', ()), ({'a': (1, 2)}, 'keys', ()),
    ({'a': (1, 2)}, 'items', ()), ([3, 1], 'orderBy', (lambda x: x,)),
    ([1, (2,)], 'toSet', ()), ((i for i in [1, 2]), 'toList', ()),
]


def check_interface_fn(run, case):
    recv, name, args = INTERFACE_CALLS[case['index']]
    t2l, s2l = case['opts']
    yi = yaql_interface.YaqlInterface(common.child(), _engine(t2l, s2l))
    if recv is not None:
        if isinstance(recv, collections.abc.Iterator):
            recv = iter([1, 2])
        yi = yi.on(yutils.convert_input_data(recv))
    run.case(case, True, cls='interface-call')
    hashpos = name == 'toSet' and not s2l
    try:
        r = getattr(yi, name)(*args)
    except Exception as e:   # noqa
        run.violate('interface-call-raises', case, 'yi.%s%r raised %s: %s' % (
            name, args, type(e).__name__, e), exc=e,
            input_class='container-in-output-set' if hashpos else name)
        return
    bad = bad_nodes(r, t2l, s2l)
    if bad:
        run.violate('interface-non-plain-node', case, 'yi.%s%r -> %r: %r' % (
            name, args, r, bad[:3]), input_class='node:' + bad[0][1])


def check_copy_family(run, case):
    """engines derived from one base engine with copy(options) / called
    with per-call options finalise according to *their* options"""
    text = case['text']
    base_opts = case.get('base_opts')
    if base_opts:
        # the base engine has explicit values of its own for the options
        # the derived engines override
        base = common.engine({'yaql.limitIterators': 1000,
                              'yaql.convertTuplesToLists': base_opts[0],
                              'yaql.convertSetsToLists': base_opts[1]},
                             cache=False)
    else:
        base = common.engine({'yaql.limitIterators': 1000}, cache=False) \
            if case.get('fresh_base') else _family_base()
    inherited = base_opts or [True, False]
    run.case(case, True, fp=(text, tuple(map(tuple, case['order'])),
                             tuple(base_opts or ()), case.get('sparse')),
             cls=['copy-family'] + (['base-with-explicit-options']
                                    if base_opts else []))
    for t2l, s2l in case['order']:
        opts = {'yaql.convertTuplesToLists': t2l,
                'yaql.convertSetsToLists': s2l}
        if case.get('sparse'):
            # only what differs from the base engine is passed
            if t2l == inherited[0]:
                del opts['yaql.convertTuplesToLists']
            if s2l == inherited[1]:
                del opts['yaql.convertSetsToLists']
        ctx1 = common.child()
        ctx2 = common.child()
        for k, v in _data().items():
            ctx1[k] = yutils.convert_input_data(v)
        for k, v in _data().items():
            ctx2[k] = yutils.convert_input_data(v)
        try:
            if case.get('per_call'):
                got = ('ok', base(text, opts).evaluate(context=ctx1))
            else:
                got = ('ok', base.copy(opts)(text).evaluate(context=ctx1))
        except Exception as e:   # noqa
            got = ('exc', type(e).__name__)
        try:
            exp = ('ok', _engine(t2l, s2l)(text).evaluate(context=ctx2))
        except Exception as e:   # noqa
            exp = ('exc', type(e).__name__)
        if got[0] != exp[0] or (got[0] == 'ok' and (
                common.snapshot(got[1]) != common.snapshot(exp[1]))):
            run.violate('copied-engine-finalises-with-other-options', case,
                        '%s through %s with tuples->lists %s, sets->lists '
                        '%s: %r; engine created with these options: %r' % (
                            text, 'engine(text, options)' if case.get(
                                'per_call') else 'engine.copy(options)',
                            t2l, s2l, got[1], exp[1]),
                        input_class='copy-family')
            return


def check_host_setup(run, case):
    """the way a host typically configures several engines: one options
    dict, updated and passed to create() for each engine (and cleared
    afterwards).  Every engine finalises by the options it was created
    with."""
    text = case['text']
    factory = common.make_factory()
    opts = {'yaql.limitIterators': 1000}
    if case.get('host_option'):
        # consumers may keep settings of their own in the options, of any
        # type
        opts['host.searchPath'] = ['a', {'b': [1]}]
    engines = []
    if case.get('legacy_first'):
        # the host also serves the 0.2 dialect, from the same dictionary
        import yaql.legacy as _legacy
        _legacy.YaqlFactory().create(options=opts)
    base = opts
    for t2l, s2l in case['order']:
        if case.get('sparse'):
            # a new dict per engine that names only what differs from the
            # documented defaults (tuples -> lists on, sets -> lists off)
            opts = dict(base)
            if not t2l:
                opts['yaql.convertTuplesToLists'] = False
            if s2l:
                opts['yaql.convertSetsToLists'] = True
        else:
            opts['yaql.convertTuplesToLists'] = t2l
            opts['yaql.convertSetsToLists'] = s2l
        engines.append(((t2l, s2l), factory.create(options=opts)))
    if case.get('clear'):
        opts.clear()
    run.case(case, True, fp=(text, tuple(map(tuple, case['order'])),
                             bool(case.get('clear')),
                             bool(case.get('sparse')),
                             bool(case.get('legacy_first')),
                             bool(case.get('host_option'))),
             cls=['host-setup'] + (['sparse-options']
                                   if case.get('sparse') else []))
    for (t2l, s2l), eng in engines:
        ctx1, ctx2 = common.child(), common.child()
        for c in (ctx1, ctx2):
            for k, v in _data().items():
                c[k] = yutils.convert_input_data(v)
        try:
            got = ('ok', eng(text).evaluate(context=ctx1))
        except Exception as e:   # noqa
            got = ('exc', type(e).__name__)
        try:
            exp = ('ok', _engine(t2l, s2l)(text).evaluate(context=ctx2))
        except Exception as e:   # noqa
            exp = ('exc', type(e).__name__)
        if got[0] != exp[0] or (got[0] == 'ok' and (
                common.snapshot(got[1]) != common.snapshot(exp[1]))):
            run.violate('engine-finalises-with-other-options', case,
                        '%s on the engine created with tuples->lists %s, '
                        'sets->lists %s from a dict the host went on to '
                        'change: %r; expected %r' % (
                            text, t2l, s2l, got[1], exp[1]),
                        input_class='host-setup')
            return


def _own_context():
    """a host's own context made by hand: variables and a function, no
    library, no finalizer"""
    from yaql.language import contexts
    own = contexts.Context()
    own['$own'] = yutils.convert_input_data([1, (2, 3), {'a': {4}}])
    own.register_function(lambda: (1, frozenset([2])), name='ownFn')
    return own


COMPOSITE_TEXTS = ['$own', 'ownFn()', '[ownFn(), $own]', '$', '$s',
                   '[1, 2].toSet()', '[$d, $s]', 'dict(a => $own[1])',
                   '$own.select($)', 'set($own[0], 5)']


def check_composite(run, case):
    """contexts composed from a standard context and a hand-made one
    (LinkedContext / MultiContext) finalise like the standard context,
    whatever was evaluated on the hand-made context alone before"""
    from yaql.language import contexts
    text = COMPOSITE_TEXTS[case['text'] % len(COMPOSITE_TEXTS)]
    t2l, s2l = case['opts']
    eng = _engine(t2l, s2l)
    own = _own_context()
    for pre in case.get('pre', []):
        try:
            eng(COMPOSITE_TEXTS[pre % 3]).evaluate(
                context=own if case.get('pre_direct') else
                own.create_child_context())
        except Exception:   # noqa
            pass
    std = common.child()
    for k, v in _data().items():
        std[k] = yutils.convert_input_data(v)
    how = case['how']
    if how == 'linked':
        ctx = contexts.LinkedContext(std, own)
    elif how == 'linked-child':
        ctx = contexts.LinkedContext(std, own.create_child_context())
    elif how == 'multi':
        ctx = contexts.MultiContext([own, std])
    else:
        ctx = contexts.MultiContext([own.create_child_context(),
                                     std.create_child_context()])
    run.case(case, bool(case.get('pre')), cls=['composite', 'how=' + how])
    try:
        got = ('ok', eng(text).evaluate(context=ctx.create_child_context()))
    except Exception as e:   # noqa
        got = ('exc', e)
    if got[0] != 'ok':
        run.violate('finalisation-raises', case,
                    '%s on a %s context raised %s: %s' % (
                        text, how, type(got[1]).__name__, got[1]),
                    exc=got[1], input_class='composite:' + how)
        return
    bad = bad_nodes(got[1], t2l, s2l)
    if bad:
        run.violate('non-plain-node-in-result', case,
                    '%s on a %s context (tuples->lists %s, sets->lists %s; '
                    'the hand-made member had evaluated %d expressions '
                    'alone before) -> %r: non-plain nodes %r' % (
                        text, how, t2l, s2l, len(case.get('pre', [])),
                        got[1], bad[:3]), input_class='composite:' + how)


# results that are sets: a set when sets are kept, a list of the same members
# when they are converted
SET_TEXTS = {
    '[1, 2, 2].toSet()': {1, 2},
    'set(1, 2)': {1, 2},
    '$d.keys().toSet()': {'k', 2},
    'dict(a => 1, b => 2).keys().toSet()': {'a', 'b'},
    '[1, 2].toDict($, $ * 2).keys().toSet()': {1, 2},
    '$d.items().select($[0]).toSet()': {'k', 2},
    '$d.keys().toSet().union(set(9))': {'k', 2, 9},
    'set(1).union($d.keys().toSet())': {'k', 2, 1},
    '$s.toSet()': {1, 'a'},
    '$s.union(set(3))': {1, 'a', 3},
    'set(1, 2).intersect([2, 3].toSet())': {2},
    '[3, 3].toSet().toSet()': {3},
    'set($d.keys().toSet().len())': {2},
}


def check_set_kind(run, case):
    text = case['text']
    t2l, s2l = case['opts']
    exp = SET_TEXTS[text]
    run.case(case, True, cls='set-results')
    try:
        got = _eval(text, t2l, s2l, True)
    except Exception as e:   # noqa
        run.violate('finalisation-raises', case, '%s raised %s: %s' % (
            text, type(e).__name__, e), exc=e, input_class='set-result')
        return
    ok = (type(got) is list and len(got) == len(exp) and set(got) == exp) \
        if s2l else (type(got) is set and got == exp)
    if not ok:
        run.violate('set-result-of-other-kind', case,
                    '%s with sets->lists %s -> %r; expected %s of %r' % (
                        text, s2l, got, 'a list' if s2l else 'a set', exp),
                    input_class='set-result')


_FAMILY = {}


def _family_base():
    if 'b' not in _FAMILY:
        _FAMILY['b'] = common.engine({'yaql.limitIterators': 1000},
                                     cache=False)
    return _FAMILY['b']


REPLAY = {'copy-family': check_copy_family, 'set-kind': check_set_kind,
          'host-setup': check_host_setup, 'composite': check_composite,
          'roundtrip': check_roundtrip, 'kind': check_kind,
          'interface-fn': check_interface_fn}


@st.composite
def kind_cases(draw):
    e = draw(st.sampled_from(ATOMS))
    for _ in range(draw(st.integers(0, 3))):
        w = draw(st.sampled_from(WRAPS))
        e = w.format(e)
    return {'kind': 'kind', 'text': e, 'opts': list(draw(st.sampled_from(
        OPTS))), 'interface': draw(st.integers(0, 4)) == 0}


@st.composite
def copy_cases(draw):
    e = draw(st.sampled_from(['set(1, 2)', '[1, [2, 3]]', '$', '$s',
                              '[1, 2].toSet()', '{a => [1]}', '[$d, $s]',
                              '[1, 2].select($)'] + ATOMS[:12]))
    return {'kind': 'copy-family', 'text': e,
            'order': [list(o) for o in draw(st.permutations(OPTS))],
            'per_call': draw(st.booleans()),
            'fresh_base': draw(st.booleans()),
            'base_opts': draw(st.sampled_from([None] + [list(o)
                                                        for o in OPTS])),
            'sparse': draw(st.booleans())}


@st.composite
def composite_cases(draw):
    return {'kind': 'composite',
            'text': draw(st.integers(0, len(COMPOSITE_TEXTS) - 1)),
            'opts': list(draw(st.sampled_from(OPTS))),
            'how': draw(st.sampled_from(['linked', 'linked-child', 'multi',
                                         'multi-children'])),
            'pre': draw(st.lists(st.integers(0, 2), max_size=2)),
            'pre_direct': draw(st.booleans())}


@st.composite
def setup_cases(draw):
    return {'kind': 'host-setup', 'text': draw(st.sampled_from(
        ['[$d, $s]', '[1, [2, 3]]', '$', '[1, 2].toSet()', '{a => [1]}'])),
        'order': [list(o) for o in draw(st.permutations(OPTS))][
            :draw(st.integers(2, 3))],
        'clear': draw(st.booleans()), 'sparse': draw(st.booleans()),
        'legacy_first': draw(st.booleans()),
        'host_option': draw(st.booleans())}


def _shard(run, which, n, shard):
    if which == 'composite':
        run.hyp('composite', composite_cases(),
                lambda c: check_composite(run, c), n, shard=shard)
        return
    if which == 'setup':
        run.hyp('host-setup', setup_cases(),
                lambda c: check_host_setup(run, c), n, shard=shard)
        return
    if which == 'copy':
        run.hyp('copy-family', copy_cases(),
                lambda c: check_copy_family(run, c), n, shard=shard)
        return
    if which == 'roundtrip':
        cases = st.builds(lambda d, o, h: {'kind': 'roundtrip', 'doc': d,
                                           'opts': list(o), 'how': h},
                          st.one_of(documents(3), documents(3),
                                    fresh_generator_docs()),
                          st.sampled_from(OPTS),
                          st.sampled_from(['evaluate', 'evaluate', 'raw-input',
                                           'no-context', 'yaql.eval',
                                           'yaql.eval-reentrant',
                                           'create_context']))
        run.hyp('roundtrip', cases, lambda c: check_roundtrip(run, c), n,
                shard=shard)
    else:
        run.hyp('kinds', kind_cases(), lambda c: check_kind(run, c), n,
                shard=shard)


def _grid_shard(run, part, parts):
    jobs = []
    for a in ATOMS:
        for w in WRAPS:
            for o in OPTS:
                jobs.append({'kind': 'kind', 'text': w.format(a),
                             'opts': list(o), 'interface': False})
    for c in jobs[part::parts]:
        check_kind(run, c)


def run(run):
    full = run.tier == 'thorough'
    common.std_context()
    for i in range(len(INTERFACE_CALLS)):
        for o in OPTS:
            check_interface_fn(run, {'kind': 'interface-fn', 'index': i,
                                     'opts': list(o)})
    for text in sorted(SET_TEXTS):
        for o in OPTS:
            check_set_kind(run, {'kind': 'set-kind', 'text': text,
                                 'opts': list(o)})
    # the smallest documents (null, false, zero, empty) by every way
    for how in ('evaluate', 'raw-input', 'no-context', 'yaql.eval',
                'yaql.eval-reentrant', 'create_context'):
        for spec in (None, False, 0, '', [], {}, [None], {'a': None}):
            for o in OPTS:
                check_roundtrip(run, {'kind': 'roundtrip', 'doc': spec,
                                      'opts': list(o), 'how': how})
    run.shards(_grid_shard, [(i, 16) for i in range(16)])
    run.extra['exhaustive_subspace'] = (
        'all %d atoms x %d single wrappers x 4 option pairs' % (
            len(ATOMS), len(WRAPS)))
    k = 8
    jobs = [('roundtrip', (30000 if full else 2400) // k, i)
            for i in range(k)]
    jobs += [('kinds', (30000 if full else 2400) // k, i) for i in range(k)]
    jobs += [('copy', (4000 if full else 400) // 4, i) for i in range(4)]
    jobs += [('composite', (8000 if full else 600) // 4, i)
             for i in range(4)]
    jobs += [('setup', (160 if full else 16) // 4, i) for i in range(4)]
    run.shards(_shard, jobs)

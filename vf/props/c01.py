"""C01 - a shared engine parses every text as if it were alone.

Sequential histories, scheduler-controlled concurrent parses (exhaustive for
short texts, Hypothesis-drawn schedules for longer ones / three threads) and a
free-running tier; oracle: differential against a fresh engine per text.
"""
import copy
import itertools
import sys
import threading

from hypothesis import strategies as st

import yaql
import os

import yaql.language.factory
from vf import common, lexhook, linesched, sched, trees
from vf.props import c03

RULE = ('cases are (engine kind, texts, order/assignment to threads, '
        'schedule); sequential non-trivial = the history contains a failed '
        'parse followed by a later parse, or two texts that are equal up to '
        'whitespace and case (incl. exact repeats); concurrent '
        'non-trivial = the schedule switches threads between two token '
        'fetches of one parse; line tier: pairs of texts with escapes, '
        'errors and long numerals on a warm shared engine, A suspended at '
        'every line event of the yaql package (inside token rules and '
        'grammar actions) while B parses, and on a brand-new engine at the '
        'first execution of every line of A\'s first parse; non-trivial '
        'there = B ran while A was suspended inside its parse; distinct = '
        'distinct (texts, trace)')
ASSUMPTIONS = [
    'scheduling points are token fetches (ply.lex.Lexer.token patched at '
    'class level from the harness); races inside one token() call are only '
    'reachable by the free-running tier, which is probabilistic',
    'reference = a brand-new engine from the same factory settings, one per '
    'text',
    'the line tier tries one preemption per run (A | B | rest of A)',
]

VALID = c03.VALID + [
    '1', '[1]', '$', 'a', 'f()', '1 + 2', '$.x', '[1, 2]', 'a.b', 'not 1',
    '{a => 1}', '-1', 'f(1)', '$a + $b', "'s'", '1 * 2 - 3', '$[0]',
    '1 + 2 * 3 - 4', "$.where($.a > 1).select($.b).len()",
]
INVALID = ['1 ? 2', '1 +', ')', "'abc", '1 2', '[1', 'f(', '$ $', '1 + * 2',
           '?', '__x', 'a b', '{', "1 + '\\xzz'", 'f(1,', ']', '1 =>',
           '$.in 5', '$.or 1 2 + 3', 'a.and b c', "'\\777' 1", 'not.x 1 2',
           # a word operator glued to the parenthesis of its right operand
           # reads as a call of a function of that name
           '$a and($b or $c)', '7 mod(4)', 'x or(not y)', '1 in([1])',
           'len(x) and(1)']
SHORT = ['1', '[1]', '$', 'a', 'f()', '1 + 2', '$.x', '[1, 2]', 'a.b',
         'not 1', '-1', 'f(1)', "'s'", '$[0]', '1 ?', ')', '1 2', '1 +',
         '[1', "'abc", '?',
         # word operators where a name is expected, with a second error
         # close behind; escapes at the edge of what the codec accepts
         '$.in 5', '$.or 1 2', "'\\777'", "'\\400' 1"]
KINDS = ['default', 'legacy', 'custom1']

_REF = {}
_TEMPLATE = {}
_SUT = {}


def template(kind):
    """A pristine engine that never parses anything itself."""
    if kind not in _TEMPLATE:
        _TEMPLATE[kind] = common.engine(cache=False, **c03.ENGINES[kind])
    return _TEMPLATE[kind]


def fresh_engine(kind, really=False):
    """An engine with fresh lexer and parser *state*.

    Building the LALR tables costs ~140 ms, so the default reference shares
    the (read-only) tables of a pristine template and gets its own ply lexer
    clone, its own shallow copy of the LRParser object and its own YaqlEngine
    instance; really=True builds everything from the factory (used to
    validate the shortcut on the text pool).
    """
    if really:
        return common.engine(cache=False, **c03.ENGINES[kind])
    return _clone_engine(template(kind))


def _clone_engine(t):
    """shallow copy of an engine in which every ply lexer / LR parser object
    it holds (directly or in a holder object of the yaql package) is replaced
    by a private copy; written against the objects, not the constructor, so
    that refactorings of YaqlEngine do not break the harness"""
    from ply import lex, yacc

    def private(obj, depth):
        if isinstance(obj, lex.Lexer):
            return obj.clone()
        if isinstance(obj, yacc.LRParser):
            return copy.copy(obj)
        if isinstance(obj, yaql.language.factory.YaqlFactory):
            return obj
        if depth < 2 and type(obj).__module__.startswith('yaql.') and \
                hasattr(obj, '__dict__'):
            c = copy.copy(obj)
            for k, v in list(vars(c).items()):
                nv = private(v, depth + 1)
                if nv is not v:
                    setattr(c, k, nv)
            return c
        if depth >= 1 and isinstance(obj, (dict, list, set, bytearray)):
            # mutable state of the pristine template (caches, counters'
            # containers): the reference gets its own, equally pristine copy
            try:
                return copy.deepcopy(obj)
            except Exception:   # noqa
                return obj
        return obj
    return private(t, 0)


def sut(kind):
    """The long-lived engine under test, shared by all cases of a process."""
    if kind not in _SUT:
        _SUT[kind] = common.engine(cache=False, **c03.ENGINES[kind])
    return _SUT[kind]


def reference(kind, text):
    """Outcome on an engine used for nothing else."""
    key = (kind, text)
    if key not in _REF:
        common.reset_process_state()
        if len(_REF) > 50000:
            _REF.clear()
        _REF[key] = trees.parse_outcome(fresh_engine(kind), text)
    return _REF[key]


def _validate_reference(run, kind, texts):
    """Truly fresh engines (factory.create per text) agree with the cheap
    reference on these texts."""
    for t in texts:
        really = trees.parse_outcome(fresh_engine(kind, really=True), t)
        cheap = reference(kind, t)
        run.count(1, cls='reference-validated-against-factory-fresh-engine')
        if really != cheap:
            run.violate('fresh-engines-disagree', {
                'kind': 'sequential', 'engine': kind,
                'texts': [common.enc(t)]},
                'text %r: factory-fresh engine %r, template clone %r' % (
                    t, really, cheap))


def _belongs_to_other(kind, texts, i, got):
    for j, t in enumerate(texts):
        if j != i and t != texts[i] and reference(kind, t) == got:
            return j
    return None


def _compare(run, case, kind, texts, got_list, label):
    bad = False
    for i, (t, got) in enumerate(zip(texts, got_list)):
        exp = reference(kind, t)
        if got != exp:
            other = _belongs_to_other(kind, texts, i, got)
            clause = label + ('-outcome-of-another-text' if other is not None
                              else '-differs-from-fresh-engine')
            run.violate(clause, case,
                        'text %r: expected %r, got %r%s' % (
                            t, exp, got, '' if other is None else
                            ' (= fresh-engine outcome of %r)' % texts[other]))
            bad = True
            break
    return bad


# --------------------------------------------------------------------------
# sequential histories

def check_sequential(run, case):
    kind = case['engine']
    texts = [common.dec(t) for t in case['texts']]
    eng = sut(kind)
    # the host keeps every statement (and error) of the history referenced,
    # as an application that caches parsed expressions does
    kept = []
    got = [trees.parse_outcome(eng, t, keep=kept if case.get(
        'keep', True) else None) for t in texts]
    failed_then_more = any(g[0] == 'exc' for g in got[:-1])
    norm = [''.join(t.split()).lower() for t in texts]
    repeated = len(set(norm)) < len(norm)
    run.case(case, failed_then_more or repeated,
             cls=['sequential'] + (['seq-after-failure']
                                   if failed_then_more else []))
    _compare(run, case, kind, texts, got, 'sequential')


# --------------------------------------------------------------------------
# scheduled concurrency

class _WithOptions:
    """the two-argument parse form of the same engine"""

    def __init__(self, eng):
        self.eng = eng

    def __call__(self, text):
        return self.eng(text, {'yaql.limitIterators': 77})


# how often the harness scheduler found a thread blocked by one it had parked
# (an engine that serialises its parses with a lock cannot be interleaved at
# token granularity: that is not a violation, the tier is abandoned)
_STALLS = [0]
STALL_LIMIT = 3


def _make_fns(eng, texts, vias=None):
    common.reset_process_state()

    def mk(t, via):
        e = _WithOptions(eng) if via == 'options' else eng

        def fn():
            lexhook.set_hook(lambda lexer: sched.point())
            try:
                return trees.parse_outcome(e, t)
            finally:
                lexhook.clear_hook()
        return fn
    vias = vias or ['plain'] * len(texts)
    return [mk(t, v) for t, v in zip(texts, vias)]


def _run_schedule(run, case, kind, texts, chooser, eng=None):
    lexhook.install()
    eng = eng or sut(kind)
    if _STALLS[0] >= STALL_LIMIT:
        run.exclude('scheduler tier abandoned: parses block each other')
        return None
    s = sched.Scheduler(timeout=3.0)
    try:
        results, trace, info = s.run(
            _make_fns(eng, texts, case.get('vias')), chooser)
    except sched.Stuck:
        _STALLS[0] += 1
        run.inconclusive += 1
        return None
    got = []
    for r in results:
        if r[0] == 'ok':
            got.append(r[1])
        else:
            got.append(('exc', type(r[1]).__name__, None, None, str(r[1])))
    full = dict(case, trace=trace)
    run.case(full, info['preemptions'] >= 1,
             fp=(kind, case['texts'], trace),
             cls=['scheduled', 'threads=%d' % len(texts)])
    _compare(run, full, kind, texts, got, 'concurrent')
    return trace, info


def check_concurrent(run, case):
    """case: {kind: concurrent, engine, texts, trace}"""
    kind = case['engine']
    texts = [common.dec(t) for t in case['texts']]
    _run_schedule(run, case, kind, texts,
                  sched.replay_chooser(case.get('trace', [])))


def check_concurrent_choices(run, case):
    kind = case['engine']
    texts = [common.dec(t) for t in case['texts']]
    _run_schedule(run, {'kind': 'concurrent', 'engine': kind,
                        'texts': case['texts'],
                        'vias': case.get('vias')}, kind, texts,
                  sched.index_chooser(case['choices']))


def _exhaustive_pairs(run, kind, pairs, max_runs):
    lexhook.install()
    eng = sut(kind)
    for pi, (a, b) in enumerate(pairs):
        if _STALLS[0] >= STALL_LIMIT:
            run.exclude('scheduler tier abandoned: parses block each other')
            continue
        texts = [a, b]
        # every third pair: one thread uses the two-argument parse form
        vias = ['plain', 'options'] if pi % 3 == 1 else None
        case = {'kind': 'concurrent', 'engine': kind, 'texts': texts}
        if vias:
            case['vias'] = vias
        state = {'bad': False}

        def on_run(results, trace, info):
            got = [r[1] if r[0] == 'ok' else
                   ('exc', type(r[1]).__name__, None, None, str(r[1]))
                   for r in results]
            full = dict(case, trace=trace)
            run.case(full, info['preemptions'] >= 1,
                     fp=(kind, texts, trace), cls='enumerated-schedule')
            if not state['bad']:
                state['bad'] = _compare(run, full, kind, texts, got,
                                        'concurrent')
        try:
            n, complete = sched.explore(
                lambda: _make_fns(eng, texts, vias), on_run,
                max_runs=max_runs, timeout=3.0)
        except sched.Stuck:
            _STALLS[0] += 1
            run.inconclusive += 1
            continue
        run.classes['pairs_enumerated_completely' if complete
                    else 'pairs_cut_at_budget'] += 1


# --------------------------------------------------------------------------
# free-running threads

EVAL_TEXTS = ['1 + 2 * 3 - 4', '[1, 2].len()', "'a' + 'b'", 'not true',
              '-1 + 5', '{a => 1}.a', '[3, 1, 2].orderBy($).first()',
              'let(x => 2) -> $x * 21', '[1, 2, 3].where($ > 1).sum()',
              "'abc'.toUpper()", '10 mod 3', '1 < 2 and 2 < 3']


def _free_running(run, kind, n_threads, parses_per_thread, use_eval=False):
    bad = []
    barrier = threading.Barrier(n_threads)
    if use_eval:
        # through the module-level yaql.eval(): one cached engine for all
        texts = EVAL_TEXTS
        ref_eng = common.engine(cache=False)
        refs = {t: ref_eng(t).evaluate(context=common.child())
                for t in texts}
        yaql._cached_engine = None
        yaql._cached_expressions = {}
        yaql._default_context = None
        yaql.eval('1')

        def one(t):
            yaql._cached_expressions.pop(t, None)   # force a parse
            try:
                return yaql.eval(t)
            except Exception as ex:   # noqa
                return ('exc', type(ex).__name__, str(ex))
    else:
        texts = VALID + INVALID
        eng = sut(kind)
        refs = {t: reference(kind, t) for t in texts}

        def one(t):
            return trees.parse_outcome(eng, t)

    def worker(k):
        barrier.wait()
        for i in range(parses_per_thread):
            t = texts[(i * (k + 3) + k) % len(texts)]
            got = one(t)
            if got != refs[t]:
                bad.append((t, refs[t], got))
                return
    old = sys.getswitchinterval()
    sys.setswitchinterval(1e-6)
    try:
        ths = [threading.Thread(target=worker, args=(k,), daemon=True)
               for k in range(n_threads)]
        for t in ths:
            t.start()
        for t in ths:
            t.join(300)
    finally:
        sys.setswitchinterval(old)
    run.count(n_threads * parses_per_thread,
              cls='free-running-eval' if use_eval else 'free-running-parses')
    if bad:
        t, exp, got = bad[0]
        other = [u for u in texts if u != t and refs[u] == got]
        run.violate('free-running' + ('-outcome-of-another-text' if other
                                      else '-differs-from-fresh-engine'),
                    {'kind': 'free', 'engine': kind, 'threads': n_threads,
                     'parses': parses_per_thread, 'use_eval': use_eval},
                    'text %r: expected %r, got %r' % (t, exp, got))


def check_free(run, case):
    _free_running(run, case['engine'], case['threads'], case['parses'],
                  case.get('use_eval', False))


# --------------------------------------------------------------------------
# line-granular single preemption (inside token fetches, inside the first
# parse of a brand-new engine)

_YAQL_DIR = os.path.dirname(os.path.abspath(yaql.__file__)) + os.sep
LINE_POOL = ["'a\\n\\tb\\x41\\xZZ'", "   'q\\n\\t'", "'\\u00e9' + 1",
             "1 + '\\xzz'", "f('\\n', 2)", "[1, 'abc", '$.a.b(1, x => 2)',
             '1 ?', '"\\x41\\u12" + 1', '  "\\N{BULLET}\\N{nope}"',
             '12345678901234567890 + 1.50', 'a and not b or c in d',
             '$x.where($ > 1)', '{a => [1, 2]}.a[0]']


_LINE_BLOCKED = [0]


def check_line(run, case):
    """case: {kind: line, engine, texts: [A, B], at, cold}"""
    kind = case['engine']
    ta, tb = (common.dec(t) for t in case['texts'])
    eng = fresh_engine(kind, really=True) if case.get('cold') else sut(kind)
    common.reset_process_state()
    if _LINE_BLOCKED[0] >= 5:
        run.exclude('line tier abandoned: parses block each other')
        return
    eng_b = _WithOptions(eng) if case.get('b_options') else eng
    out = linesched.run_preempted(
        lambda: trees.parse_outcome(eng, ta),
        lambda: trees.parse_outcome(eng_b, tb), case['at'], _YAQL_DIR)
    if out is None:
        run.inconclusive += 1
        return
    ra, rb, fired, where = out
    if fired == 'blocked':
        _LINE_BLOCKED[0] += 1
    got = [r[1] if r[0] == 'ok' else
           ('exc', type(r[1]).__name__, None, None, str(r[1]))
           for r in (ra, rb)]
    full = dict(case, where=list(where) if where else None)
    run.case(full, fired is True, fp=(kind, case['texts'], case['at'],
                                      bool(case.get('cold'))),
             cls=['line-preemption', 'cold-engine' if case.get('cold')
                  else 'warm-engine'] + (
                 ['b-blocked-until-a-resumed'] if fired == 'blocked' else []))
    _compare(run, full, kind, [ta, tb], got,
             'cold-concurrent' if case.get('cold') else 'concurrent')


def _line_shard(run, jobs):
    for kind, ta, tb, cold, budget in jobs:
        if cold:
            eng = fresh_engine(kind, really=True)
        else:
            eng = sut(kind)
            trees.parse_outcome(eng, ta)
        _, total, firsts = linesched.events(
            lambda: trees.parse_outcome(eng, ta), _YAQL_DIR)
        ats = [f[0] for f in firsts] if cold else list(range(1, total + 1))
        if len(ats) > budget:
            step = len(ats) / float(budget)
            ats = sorted({ats[int(i * step)] for i in range(budget)})
        for at in ats:
            check_line(run, {'kind': 'line', 'engine': kind,
                             'texts': [common.enc(ta), common.enc(tb)],
                             'at': at, 'cold': cold,
                             'b_options': at % 3 == 0})


REPLAY = {'line': check_line,
          'sequential': check_sequential, 'concurrent': check_concurrent,
          'concurrent-choices': check_concurrent_choices, 'free': check_free}


# --------------------------------------------------------------------------

NEAR_BASES = ["'a b'", '"x  y" + \'p q\'', "f('a b', `c d`)", '$.a  +  $.b',
              "'A' + 'a'", '[1, 2 ,3]', "{' k' => 'v '}", "'a\tb'",
              "$.where($.name = 'J  D')", "' '", '1 + 2']


@st.composite
def _near_duplicates(draw):
    """A text followed by variants that a careless cache key (strip, lower,
    whitespace-collapse, prefix) would identify with it."""
    base = draw(st.one_of(st.sampled_from(NEAR_BASES),
                          st.sampled_from(VALID)))
    out = [base]
    for _ in range(draw(st.integers(1, 3))):
        t = draw(st.sampled_from(out))
        op = draw(st.sampled_from(['ins-ws', 'ws-swap', 'case', 'pad',
                                   'dup-char']))
        pos = draw(st.integers(0, max(len(t) - 1, 0)))
        if op == 'ins-ws':
            ws_at = [i for i, c in enumerate(t) if c in ' \t'] or [pos]
            i = draw(st.sampled_from(ws_at))
            t = t[:i] + draw(st.sampled_from([' ', '\t', '\n'])) + t[i:]
        elif op == 'ws-swap':
            ws_at = [i for i, c in enumerate(t) if c in ' \t']
            if ws_at:
                i = draw(st.sampled_from(ws_at))
                t = t[:i] + draw(st.sampled_from(
                    ['\t', '\n', '\u00a0', '  '])) + t[i + 1:]
        elif op == 'case':
            t = t[:pos] + t[pos].swapcase() + t[pos + 1:] if t else t
        elif op == 'pad':
            t = draw(st.sampled_from([' ', '\n'])) + t + ' '
        else:
            t = t[:pos] + t[pos:pos + 1] * 2 + t[pos + 1:]
        out.append(t)
    if draw(st.booleans()):
        out.append(base)
    if draw(st.integers(0, 3)) == 0:
        # literals that are equal as python values but are different
        # literals (2 / 2.0, 1 / true, 0 / false / 0.0, 'a' / a)
        twins = draw(st.sampled_from(LITERAL_TWINS))
        a, b = draw(st.permutations(twins))[:2]
        out += ['$.x * %s' % a, '$.y / %s' % b, 'str(%s)' % b, '[%s, %s]' % (
            a, b)][:draw(st.integers(2, 4))]
    return out


LITERAL_TWINS = [('2', '2.0'), ('10', '10.0', '1e1'), ('1', 'true', '1.0'),
                 ('0', 'false', '0.0'), ("'a'", 'a', '"a"'),
                 ('null', "'null'"), ("'1'", '1')]


def _texts(min_size, max_size, pool=None):
    pool = pool or (VALID + INVALID)
    mut = c03._mutations(set(''.join(pool))).map(
        lambda c: common.dec(c['text']))
    one = st.one_of(st.sampled_from(VALID), st.sampled_from(INVALID), mut)
    return st.lists(one, min_size=min_size, max_size=max_size)


def run(run):
    full = run.tier == 'thorough'
    pool = VALID + INVALID
    if not full:
        pool = pool[run.seed % 6::6]
    jobs = [(k, pool[i::8]) for k in KINDS for i in range(8)]
    run.shards(_validate_reference, [j for j in jobs if j[1]])
    # sequential histories
    seq = st.builds(lambda k, ts: {'kind': 'sequential', 'engine': k,
                                   'texts': [common.enc(t) for t in ts]},
                    st.sampled_from(KINDS), _texts(2, 6))
    run.hyp('sequential', seq, lambda c: check_sequential(run, c),
            4000 if full else 300)
    near = st.builds(lambda k, ts: {'kind': 'sequential', 'engine': k,
                                    'texts': [common.enc(t) for t in ts]},
                     st.sampled_from(KINDS), _near_duplicates())
    run.hyp('near-duplicates', near, lambda c: check_sequential(run, c),
            4000 if full else 400)
    # exhaustive interleavings of short pairs
    pairs = list(itertools.combinations_with_replacement(SHORT, 2))
    if not full:
        # deterministic subset driven by the seed: every text appears
        step = 5
        off = run.seed % step
        pairs = pairs[off::step]
    chunks = [pairs[i::16] for i in range(16)]
    jobs = [('default', ch, 3000 if full else 400) for ch in chunks if ch]
    if full:
        jobs += [('legacy', ch, 3000) for ch in chunks if ch]
    run.shards(_exhaustive_pairs, jobs)
    run.extra['exhaustive_subspace'] = (
        'all token-fetch interleavings of %d pairs of short texts (<=5 '
        'tokens each) on one shared engine; pairs cut at the run budget are '
        'counted in classes.pairs_cut_at_budget' % len(pairs))
    # random schedules, 2-3 threads, longer texts
    conc = st.builds(
        lambda k, ts, ch, vs: {'kind': 'concurrent-choices', 'engine': k,
                               'texts': [common.enc(t) for t in ts],
                               'choices': ch, 'vias': vs[:len(ts)]},
        st.sampled_from(KINDS), _texts(2, 3),
        st.lists(st.integers(0, 2), max_size=60),
        st.lists(st.sampled_from(['plain', 'plain', 'options']), min_size=3,
                 max_size=3))
    run.hyp('random-schedules', conc,
            lambda c: check_concurrent_choices(run, c),
            6000 if full else 300)
    # line-granular single preemption: warm engine, every line event of A;
    # brand-new engine, first execution of every line during A's first parse
    lp = LINE_POOL + INVALID[:6]
    pairs = [(a, b) for a in lp for b in lp]
    if not full:
        pairs = pairs[run.seed % 3::3]
    jobs = [('default', a, b, False, 400) for a, b in pairs]
    if full:
        jobs += [(k, a, b, False, 400) for k in ('legacy', 'custom1')
                 for a, b in pairs[::4]]
    cold = [(KINDS[i % len(KINDS)], lp[(i * 5 + run.seed) % len(lp)],
             lp[(i * 3 + 1) % len(lp)], True, 100 if full else 40)
            for i in range(48 if full else 16)]
    allj = cold + jobs
    run.shards(_line_shard, [(allj[i::16],) for i in range(16)])
    # free-running
    for kind in (KINDS if full else ['default']):
        _free_running(run, kind, 4, 6000 if full else 700)
    _free_running(run, 'default', 3, 3000 if full else 400, use_eval=True)

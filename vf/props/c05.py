"""C05 - overload resolution follows the documented resolution rules.

Random overload families (vf/resfam.py) spread over context chains, random
calls rendered to YAQL text (and a python-level API path); oracle:
models/resolution.py, an order-free implementation of the written rules.
"""
import json

from hypothesis import strategies as st

from vf import common, resfam
from vf.models import resolution as R
from yaql.language import utils as yutils

RULE = ('random families of 1-6 overloads of one name (0-4 visible '
        'parameters, hidden parameters at any position, defaults, *args/'
        '**kwargs, keyword-only, lazy parameters, types from the lattice '
        'object>A>B>C, A>D plus int/Integer/String/bool and the union types '
        '(B, D) and Number, nullable or not, '
        'function/method/extension kinds) over 1-4 layers with optional '
        'exclusivity; calls derived from one of the definitions and then '
        'perturbed (positional/keyword split, omitted and skipped defaults, '
        'extra arguments, wrong keyword names, literal constants, receiver); '
        'non-trivial = >=2 definitions bindable, or a hidden parameter '
        'before a visible one, or a skipped slot, or a default used, or two '
        'layers with candidates, or an exclusive cut; distinct = distinct '
        '(family, call)')
ASSUMPTIONS = [
    'stage tolerance: type checks on values already known at binding time '
    '(receiver; skipped-slot defaults; constants passed by keyword; '
    'python-level values of an API call) may or may not exclude a candidate '
    'before the laziness-agreement rule; the model is evaluated under all 16 '
    'combinations of these four toggles and any of the outcomes is accepted '
    '(cases where they differ are counted as stage-sensitive); positional '
    'constants are always checked before evaluation',
    'a keyword naming a parameter whose positional slot is skipped in the '
    'same call is unspecified and excluded (counted)',
    'no_kwargs agreement is required of all collected candidates (as '
    'implemented; the documentation is silent)',
]


def _engine():
    return common.engine()


_BASE = {}


def base_ctx():
    if 'b' not in _BASE:
        log = []
        c = common.std_context().create_child_context()
        common.add_tick(c, log)
        _BASE['b'] = (c, log)
    return _BASE['b']


def _jd(o):
    if isinstance(o, yutils.MappingRule):
        return ['=>', o.source, o.destination]
    if isinstance(o, resfam.A):
        return repr(o)
    return '<%s>' % type(o).__name__


def _norm(x):
    return json.loads(json.dumps(x, default=_jd))


def run_impl(family, call):
    base, log = base_ctx()
    del log[:]
    try:
        ctx, defs = resfam.build_chain(family, base, ordered=False)
    except Exception as e:   # noqa
        # (a registration that is refused is an outcome like any other)
        return ['exc', type(e).__name__, 'while registering: %s' % e], []
    c = ctx.create_child_context()
    if call.get('via') == 'api':
        args = [yutils.NO_VALUE if isinstance(a, dict) and a.get('skip')
                else resfam.value(a) for a in call.get('args', [])]
        kwargs = {k: resfam.value(v) for k, v in call.get('kwargs', [])}
        recv = resfam.value(call['receiver']) if 'receiver' in call \
            else yutils.NO_VALUE
        try:
            r = c('f', _engine(), recv)(*args, **kwargs)
            return ['ok'] + _norm(r), list(log)
        except Exception as e:   # noqa
            return ['exc', type(e).__name__], list(log)
    text, binds = resfam.render_call(call)
    for k, v in binds.items():
        c['$' + k] = v
    try:
        r = _engine()(text).evaluate(context=c)
        return ['ok'] + _norm(r), list(log)
    except Exception as e:   # noqa
        return ['exc', type(e).__name__, str(e)[:200]], list(log)


def _unspecified(family, call):
    """skip + keyword for the same parameter"""
    kw = {k for k, _ in call.get('kwargs', [])}
    pos = call.get('args', [])
    off = 1 if 'receiver' in call else 0
    for d in family['defs']:
        vis = [p for p in d['params'] if not p.get('hidden') and
               not p.get('kwonly')]
        for i, a in enumerate(pos):
            if isinstance(a, dict) and a.get('skip') and i + off < len(vis) \
                    and vis[i + off].get('alias', vis[i + off]['name']) in kw:
                return True
    return False


def _nontrivial(family, call):
    has_recv = 'receiver' in call
    pos = [R.Slot(a) for a in call.get('args', [])]
    if has_recv:
        pos = [R.Slot(call['receiver'])] + pos
    kws = [(k, R.Slot(v)) for k, v in call.get('kwargs', [])]
    bindable = [(d, R.bind(d, pos, kws, has_recv)) for d in family['defs']]
    bindable = [(d, b) for d, b in bindable if b is not None]
    reasons = []
    if len(bindable) >= 2:
        reasons.append('>=2-bindable')
    if len({d['layer'] for d, b in bindable}) >= 2:
        reasons.append('two-layers')
    if any(s.skip for s in pos):
        reasons.append('skipped-slot')
    if any('default' in b['bound'].values() for d, b in bindable):
        reasons.append('default-used')
    for d in family['defs']:
        seen_hidden = False
        for p in d['params']:
            if p.get('hidden') and not p.get('kwonly'):
                seen_hidden = True
            elif seen_hidden and not p.get('kwonly'):
                reasons.append('hidden-before-visible')
                break
    if any(d.get('exclusive') for d in family['defs']):
        reasons.append('exclusive')
    return sorted(set(reasons))


def check_call(run, case):
    family, call = case['family'], case['call']
    if _unspecified(family, call):
        run.exclude('skip + keyword for the same parameter (unspecified)')
        return
    got, log = run_impl(family, call)
    outcomes = []
    for stage in R.all_stages():
        o = R.predict(family, call, stage)
        if o not in outcomes:
            outcomes.append(o)
    reasons = _nontrivial(family, call)
    cls = ['call', 'via=' + call.get('via', 'text')] + reasons
    if len(outcomes) > 1:
        cls.append('stage-sensitive')
    cls.append('outcome=' + (got[0] if got[0] == 'ok' else got[1]))
    run.case(case, bool(reasons), cls=cls)

    def same(o):
        if o[0] == 'exc':
            return got[0] == 'exc' and got[1] == o[1]
        if family.get('decl') == 'shared-payload':
            # (families borrowed from C06: every member keeps the very same
            # payload object, which reports the arguments only)
            # (members without a plain positional signature stay assembled
            # and tagged)
            return got[0] == 'ok' and got[1] in (None, o[1]) and \
                got[2:4] == _norm([o[2], o[3]])
        return got[0] == 'ok' and got[1:4] == _norm([o[1], o[2], o[3]])
    hit = [o for o in outcomes if same(o)]
    if not hit:
        exp = outcomes[0]
        kind = ('%s-instead-of-%s' % (
            got[1] if got[0] == 'exc' else 'runs-' + (
                'other-overload' if exp[0] == 'ok' else 'an-overload'),
            exp[1] if exp[0] == 'exc' else 'value'))
        run.violate('outcome-differs-from-rules', case,
                    'implementation: %r; rules: %r' % (
                        got, [o[:-2] for o in outcomes]),
                    input_class=kind)
        return
    if call.get('via') == 'api':
        return
    # evaluation log: eager arguments once, in order, only if step 5 was
    # reached; lazily bound ones only when the payload forces them
    problems = []
    for o in hit:
        eager, lazy = R.expected_log(call, o)
        if log[:len(eager)] == eager and \
                sorted(log[len(eager):]) == sorted(lazy):
            return
        problems.append('expected eager %r then lazy %r' % (eager, lazy))
    run.violate('evaluation-log-differs', case,
                'log %r; %s' % (log, ' / '.join(problems)),
                input_class='evaluated-%s' % (
                    'more' if len(log) > len(R.expected_log(call, hit[0])[0])
                    else 'less-or-reordered'))


REPLAY = {'call': check_call}

# --------------------------------------------------------------------------
# generators

TYPES = ['obj', 'A', 'B', 'C', 'D', 'int', 'Integer', 'String', 'bool',
         'Number', 'BorD', 'Pos']
GOOD = {
    'obj': [{'o': 'a'}, {'o': 'c'}, 1, 'x', True],
    'A': [{'o': 'a'}, {'o': 'b'}, {'o': 'c'}, {'o': 'd'}],
    'B': [{'o': 'b'}, {'o': 'c'}], 'C': [{'o': 'c'}], 'D': [{'o': 'd'}],
    'int': [0, 7, True], 'Integer': [0, 7], 'String': ['x', ''],
    'bool': [True, False],
    'Number': [0, 7, 1.5], 'BorD': [{'o': 'b'}, {'o': 'c'}, {'o': 'd'}],
    'Pos': [7, 5, True],
}
ANY = [{'o': 'a'}, {'o': 'b'}, {'o': 'c'}, {'o': 'd'}, 0, 7, -3, 'x', True,
       None, 1.5]
PNAMES = ['p', 'q', 'r', 's', 'long_name', 'k']
ALIASES = {'long_name': 'longName', 'p': 'pAlias', 'q': 'q_', 'k': 'key'}


@st.composite
def definition(draw, tag, layer):
    kind = draw(st.sampled_from(['function', 'function', 'method',
                                 'extension']))
    n = draw(st.integers(0 if kind == 'function' else 1, 4))
    names = list(PNAMES)
    params = []
    for i in range(n):
        t = draw(st.sampled_from(TYPES))
        p = {'name': names.pop(0), 'type': t,
             'nullable': draw(st.sampled_from([False, False, True]))}
        if draw(st.integers(0, 2)) == 0:
            # published keyword differs from the python name (convention
            # translation or an explicit alias)
            p['alias'] = ALIASES.get(p['name'], p['name'] + 'X')
        if draw(st.integers(0, 5)) == 0 and not (
                kind != 'function' and i == 0):
            p['lazy'] = True
            p['nullable'] = True
        params.append(p)
    # defaults: a suffix, or arbitrary parameters
    if params:
        mode = draw(st.sampled_from(['none', 'suffix', 'suffix', 'any']))
        if mode == 'suffix':
            k = draw(st.integers(1, len(params)))
            idxs = range(len(params) - k, len(params))
        elif mode == 'any':
            idxs = [i for i in range(len(params)) if draw(st.booleans())]
        else:
            idxs = []
        for i in idxs:
            if kind != 'function' and i == 0:
                continue
            p = params[i]
            if draw(st.integers(0, 7)) == 0:
                p['default'] = None            # may violate its own type
            else:
                p['default'] = draw(st.sampled_from(GOOD[p['type']]))
    # hidden parameters at generated positions
    for _ in range(draw(st.sampled_from([0, 0, 1, 2]))):
        pos = draw(st.integers(0, len(params)))
        params.insert(pos, {'name': 'h%d' % len(params), 'type': 'obj',
                            'hidden': True})
    # parameters the host left undeclared: typed by yaql from the default
    # value (any value when there is none), nullable; some have names that
    # resemble the automatically injected ones (context, engine,
    # yaql_interface and their __ spellings) without being them
    near = ['_engine', '_context', 'engine_', '_yaql_interface',
            'contexts']
    for p in params:
        if p.get('hidden') or p.get('lazy') or 'alias' in p or \
                draw(st.integers(0, 4)) != 0:
            continue
        v = p.get('default')
        if isinstance(v, bool):
            t = 'bool'
        elif isinstance(v, int):
            t = 'int'
        elif isinstance(v, str):
            t = 'String'
        elif isinstance(v, dict) and 'o' in v:
            t = v['o'].upper()
        elif v is None:
            t = 'obj'
        else:
            continue
        p['type'], p['nullable'], p['undeclared'] = t, True, True
        if near and draw(st.booleans()):
            p['name'] = near.pop(draw(st.integers(0, len(near) - 1)))
    d = {'tag': tag, 'layer': layer, 'kind': kind, 'params': params}
    if draw(st.integers(0, 3)) == 0:
        d['varargs'] = draw(st.sampled_from(TYPES))
    for _ in range(draw(st.sampled_from([0, 0, 0, 1, 2]))):
        p = {'name': names.pop(), 'type': draw(st.sampled_from(TYPES)),
             'nullable': draw(st.booleans()), 'kwonly': True}
        if draw(st.integers(0, 2)) == 0:
            p['alias'] = ALIASES.get(p['name'], p['name'] + 'X')
        if draw(st.integers(0, 5)) == 0:
            p['lazy'] = True
            p['nullable'] = True
        if draw(st.integers(0, 3)) > 0:
            p['default'] = draw(st.sampled_from(GOOD[p['type']] + [None]))
        d['params'].append(p)
    if draw(st.integers(0, 9)) == 0:
        d['params'].append({'name': 'hk', 'type': 'obj', 'hidden': True,
                            'kwonly': True})
    if draw(st.integers(0, 4)) == 0:
        d['kwargs'] = draw(st.sampled_from(['obj', 'int', 'String']))
    return d


@st.composite
def family_and_call(draw):
    layers = draw(st.sampled_from([1, 1, 2, 2, 3, 4]))
    ndefs = draw(st.integers(1, 6))
    defs = []
    for i in range(ndefs):
        d = draw(definition('t%d' % i, draw(st.integers(0, layers - 1))))
        if draw(st.integers(0, 11)) == 0:
            d['exclusive'] = True
        defs.append(d)
    if draw(st.integers(0, 3)) == 0 and len(defs) >= 2:
        # a near-copy of an existing definition with one type changed
        src = draw(st.sampled_from(defs))
        cp = json.loads(json.dumps(src))
        cp['tag'] = 't%d' % len(defs)
        vis = [p for p in cp['params'] if not p.get('hidden')]
        if vis:
            p = draw(st.sampled_from(vis))
            p['type'] = draw(st.sampled_from(resfam.SUPERS[p['type']]))
        cp['layer'] = draw(st.integers(0, layers - 1))
        defs.append(cp)
    family = {'layers': layers, 'defs': defs}
    # a call derived from one definition
    d = draw(st.sampled_from(defs))
    vis = [p for p in d['params'] if not p.get('hidden') and
           not p.get('kwonly')]
    kwo = [p for p in d['params'] if p.get('kwonly') and not p.get('hidden')]
    via = draw(st.sampled_from(['text', 'text', 'text', 'api']))
    tick_id = [0]

    def val(p, allow_const=True):
        wrong = draw(st.integers(0, 7)) == 0
        v = draw(st.sampled_from(ANY if wrong else GOOD[p['type']]))
        if via == 'api':
            return v
        form = draw(st.sampled_from(['var', 'var', 'tick', 'const']))
        if form == 'const' and allow_const and not isinstance(v, dict) and \
                not (isinstance(v, (int, float)) and v < 0):
            # (a negative numeral is not a constant: it is unary minus
            # applied to one)
            return {'lit': v}
        if form == 'tick':
            tick_id[0] += 1
            return {'tick': v, 'id': tick_id[0]}
        return v
    npos = draw(st.integers(0, len(vis)))
    args = []
    kwargs = []
    for i, p in enumerate(vis):
        if i < npos:
            if 'default' in p and draw(st.integers(0, 3)) == 0:
                args.append({'skip': 1})
            else:
                args.append(val(p))
        else:
            if 'default' in p and draw(st.booleans()):
                continue                                    # omitted
            if draw(st.integers(0, 9)) == 0:
                continue                                    # maybe missing
            kwargs.append([p.get('alias', p['name']), val(p)])
    while args and isinstance(args[-1], dict) and args[-1].get('skip') \
            and draw(st.booleans()):
        args.pop()
    for p in kwo:
        if 'default' in p and draw(st.booleans()):
            continue
        kwargs.append([p.get('alias', p['name']), val(p)])
    if draw(st.integers(0, 5)) == 0:
        args.append(val({'type': d.get('varargs') or 'obj'}))
    if draw(st.integers(0, 7)) == 0:
        kwargs.append([draw(st.sampled_from(['zz', 'h0', 'hk', 'args'])),
                       val({'type': d.get('kwargs') or 'obj'})])
    # text calls: positional arguments may not follow... the grammar
    # requires positional before keyword, which the rendering respects
    call = {'args': args, 'kwargs': kwargs, 'via': via}
    use_recv = d['kind'] == 'method' or (
        d['kind'] == 'extension' and draw(st.booleans())) or \
        draw(st.integers(0, 9)) == 0
    if use_recv and args and not (isinstance(args[0], dict) and (
            args[0].get('skip') or 'lit' in args[0])):
        call['receiver'] = args.pop(0)
    seen = set()
    kwargs2 = []
    for k, v in kwargs:
        if k not in seen:
            seen.add(k)
            kwargs2.append([k, v])
    call['kwargs'] = kwargs2
    # trailing skipped slots have no spelling in text ("f(1,)" is a
    # grammar error) - drop them
    while call['args'] and isinstance(call['args'][-1], dict) and \
            call['args'][-1].get('skip'):
        call['args'].pop()
    # declared through Python signatures and decorators, or as one shared
    # callable typed per registration, instead of assembled definitions
    # (members without such a spelling stay assembled)
    family['decl'] = draw(st.sampled_from(['assembled', 'signature',
                                           'shared-callable',
                                           'shared-callable-flags',
                                           'signature-reregistered']))
    return {'kind': 'call', 'family': family, 'call': call}


def _biased():
    # the >=2-simultaneous-matches families of C06, judged by the rules
    from vf.props import c06
    # (mapping-style arguments with non-keyword keys are C06's business;
    # the rules model has no notion of them)
    return c06.biased_family().filter(
        lambda c: not any(isinstance(a, dict) and 'raw' in a
                          for a in c['call'].get('args', []))).map(
        lambda c: {'kind': 'call', 'family': c['family'],
                   'call': dict(c['call'], via='text')})


def _shard(run, n, shard):
    run.hyp('calls', family_and_call(), lambda c: check_call(run, c), n,
            shard=shard)
    run.hyp('biased', _biased(), lambda c: check_call(run, c), n // 4,
            shard=shard)


def run(run):
    full = run.tier == 'thorough'
    _engine()
    base_ctx()
    k = 16
    n = (60000 if full else 12000) // k
    run.shards(_shard, [(n, i) for i in range(k)])

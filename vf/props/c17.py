"""C17 - context trees resolve variables and functions layer by layer.

Hypothesis rule-based state machine over forests of Context / MultiContext /
LinkedContext; after every step every context is compared with the
flattened-layers model (models/ctxmodel.py).
"""
from hypothesis import strategies as st
from hypothesis.stateful import RuleBasedStateMachine, precondition, rule

from vf.models import ctxmodel as M
from yaql.language import contexts, conventions, specs

RULE = ('histories of up to 30 (thorough 60) operations over forests of at '
        'most 12 contexts: new root, child, multi over 1-3 contexts, linked '
        '(with and without a parent of its own), '
        'set, delete, register (exclusive or not), delete_function; after '
        'every step every context x 8 variable spellings x 3 function '
        'spellings is compared with the model (chain lookup, own-layer read '
        'with a default, membership, keys, function sets); non-trivial = the history '
        'built a composite context whose chain has >=2 layers and wrote '
        'after it; distinct = distinct (forest shape, operation kinds)')
ASSUMPTIONS = [
    'only the public ContextBase interface is used',
    'delete_function drops the exclusivity mark of the name (as '
    'implemented; the documentation is silent)',
    'deleting a variable through a multi-context removes it from every '
    'member that defines it and raises KeyError only if none does (merge '
    'semantics of the property statement)',
]

VAR_NAMES = ['x', '$x', '', '$', '$1', '1', 'y_', '$zz']
FN_NAMES = ['f', 'g']
FN_QUERIES = ['f', 'f_', 'g', 'g__', 'h']
MAX_CTX = 12


class Exec:
    """Applies JSON operations to real contexts and to the model."""

    def __init__(self):
        self.real = []
        self.model = []
        self.defs = {}       # fid -> FunctionDefinition
        self.def_names = {}
        self.next_fid = 0
        self.kinds = []
        self.composite_deep = False
        self.wrote_after = False

    def _add(self, real, model):
        self.real.append(real)
        self.model.append(model)

    def apply(self, op):
        """returns None or a (clause, detail) violation"""
        k = op[0]
        self.kinds.append(k)
        n = len(self.real)
        if k == 'root':
            conv = conventions.CamelCaseConvention() if op[1] else None
            self._add(contexts.Context(convention=conv), M.MPlain())
            return
        i = (op[1][0] if isinstance(op[1], list) else op[1]) % n
        r, m = self.real[i], self.model[i]
        if k == 'child':
            try:
                c = r.create_child_context()
            except Exception as e:   # noqa
                return ('create-child-raises', '%s.create_child_context() '
                        'raised %s: %s' % (m.shape(), type(e).__name__, e), e)
            self._add(c, m.child())
        elif k == 'multi':
            idx = [j % n for j in op[1]] if isinstance(op[1], list) else [i]
            rs = [self.real[j] for j in idx]
            ms = [self.model[j] for j in idx]
            self._add(contexts.MultiContext(rs), M.MMulti(ms))
            if M.depth(self.model[-1]) >= 2:
                self.composite_deep = True
        elif k == 'linked':
            j = op[2] % n
            self._add(contexts.LinkedContext(r, self.real[j]),
                      M.MLinked(m, self.model[j]))
            if M.depth(self.model[-1]) >= 2:
                self.composite_deep = True
        elif k == 'linked0':
            # a linked context that has no parent of its own
            self._add(contexts.LinkedContext(None, r), M.MLinked(None, m))
            if M.depth(self.model[-1]) >= 2:
                self.composite_deep = True
        elif k == 'set':
            r[op[2]] = op[3]
            m.set(op[2], op[3])
            self._wrote()
        elif k == 'del':
            exp_err = None
            try:
                m.delete(op[2])
            except KeyError as e:
                exp_err = e
            try:
                del r[op[2]]
                got_err = None
            except Exception as e:   # noqa
                got_err = e
            self._wrote()
            if exp_err is None and got_err is not None:
                return ('delete-raises', 'del %s[%r] raised %s: %s although '
                        'the layer defines the name' % (
                            m.shape(), op[2], type(got_err).__name__,
                            got_err), got_err)
            if exp_err is not None and not isinstance(got_err, KeyError):
                return ('delete-missing-no-keyerror',
                        'del %s[%r]: expected KeyError, got %r' % (
                            m.shape(), op[2], got_err), got_err)
        elif k == 'reg':
            fid = self.next_fid
            self.next_fid += 1
            name, method, excl = op[2], op[3], op[4]

            def payload(a=None, _fid=fid):
                return _fid
            fd = specs.get_function_definition(
                payload, name=name, method=method, function=not method
                if method else True)
            self.defs[fid] = fd
            self.def_names[fid] = name
            r.register_function(fd, exclusive=excl)
            m.register(fid, name, excl)
            self._wrote()
        elif k == 'rereg':
            # the same definition object registered in another context too
            if not self.defs:
                return
            fid = sorted(self.defs)[op[2] % len(self.defs)]
            r.register_function(self.defs[fid], exclusive=op[3])
            m.register(fid, self.def_names[fid], op[3])
            self._wrote()
        elif k == 'unreg':
            if not self.defs:
                return
            fid = sorted(self.defs)[op[2] % len(self.defs)]
            r.delete_function(self.defs[fid])
            m.unregister(fid, self.def_names[fid])
            self._wrote()

    def _wrote(self):
        if self.composite_deep:
            self.wrote_after = True

    def fid_of(self, fd):
        for fid, d in self.defs.items():
            if d is fd:
                return fid
        return ('unknown', repr(fd))

    def compare(self):
        """first disagreement between real contexts and model, or None"""
        for i, (r, m) in enumerate(zip(self.real, self.model)):
            sh = m.shape()
            for name in VAR_NAMES:
                try:
                    got = r[name]
                    inn = name in r
                except Exception as e:   # noqa
                    return ('read-raises', 'ctx#%d %s[%r] raised %s: %s' % (
                        i, sh, name, type(e).__name__, e), e)
                exp = M.lookup(m, name)
                if got != exp:
                    return ('variable-lookup', 'ctx#%d %s[%r] = %r, model %r'
                            % (i, sh, name, got, exp), None)
                # a read of this layer alone with the caller's default
                try:
                    own = r.get_data(name, default='<dflt>',
                                     ask_parent=False)
                except Exception as e:   # noqa
                    return ('read-raises', 'ctx#%d %s.get_data(%r, default, '
                            'ask_parent=False) raised %s: %s' % (
                                i, sh, name, type(e).__name__, e), e)
                want = m.own_get(name)
                if want is M.MISSING:
                    want = '<dflt>'
                if own != want or repr(own) == '<NoValue>':
                    return ('variable-lookup', 'ctx#%d %s.get_data(%r, '
                            'default, ask_parent=False) = %r, model %r' % (
                                i, sh, name, own, want), None)
                if repr(got) == '<NoValue>':
                    return ('variable-lookup', 'ctx#%d %s[%r] is the '
                            'internal no-value marker' % (i, sh, name), None)
                if inn != m.own_contains(name):
                    return ('membership', 'ctx#%d %r in %s = %r, model %r' % (
                        i, name, sh, inn, m.own_contains(name)), None)
            try:
                keys = list(r.keys())
            except Exception as e:   # noqa
                return ('keys-raises', 'ctx#%d %s.keys() raised %s: %s' % (
                    i, sh, type(e).__name__, e), e)
            if sorted(keys) != sorted(m.own_keys()) or \
                    len(keys) != len(set(keys)):
                return ('keys', 'ctx#%d %s.keys() = %r, model %r' % (
                    i, sh, keys, m.own_keys()), None)
            for q in FN_QUERIES:
                try:
                    fs, excl = r.get_functions(q)
                    layers = r.collect_functions(q)
                    only_m = r.collect_functions(
                        q, lambda fd, ctx: fd.is_method)
                except Exception as e:   # noqa
                    return ('functions-raise', 'ctx#%d %s functions(%r) '
                            'raised %s: %s' % (i, sh, q, type(e).__name__, e),
                            e)
                gf = {self.fid_of(f) for f in fs}
                ef, ee = m.own_functions(q)
                if gf != ef or bool(excl) != ee:
                    return ('get-functions', 'ctx#%d %s.get_functions(%r) = '
                            '(%r, %r), model (%r, %r)' % (
                                i, sh, q, sorted(gf, key=repr), excl,
                                sorted(ef), ee), None)
                gl = [{self.fid_of(f) for f in layer} for layer in layers]
                el = M.collect(m, q)
                if gl != el:
                    return ('collect-functions', 'ctx#%d %s.collect_functions'
                            '(%r) = %r, model %r' % (i, sh, q, gl, el), None)
                gm = [{self.fid_of(f) for f in layer} for layer in only_m]
                em = M.collect(m, q, lambda fid: self.defs[fid].is_method)
                if gm != em:
                    return ('collect-functions-predicate', 'ctx#%d %s.collect'
                            '_functions(%r, is_method) = %r, model %r' % (
                                i, sh, q, gm, em), None)
        return None


def _shape_class(ex, i=None):
    kinds = ''.join(sorted(set(m.kind for m in ex.model)))
    return kinds


def run_history(run, case, count=True):
    ex = Exec()
    bad = None
    for op in case['ops']:
        bad = ex.apply(op)
        if bad is None:
            bad = ex.compare()
        if bad is not None:
            break
    if count:
        nt = ex.composite_deep and ex.wrote_after
        run.case(case, nt, fp=(sorted(m.shape() for m in ex.model),
                               sorted(ex.kinds)),
                 cls=['history', 'contexts=%d' % min(len(ex.real), 12)] + (
                     ['has-' + k for k in sorted(set(
                         m.kind for m in ex.model))]))
    if bad is not None:
        clause, detail, exc = bad
        # structural class: kind of the context the failing op addressed
        op = case['ops'][len(ex.kinds) - 1]
        target = '-'
        if len(op) > 1 and isinstance(op[1], int) and \
                not isinstance(op[1], bool) and ex.model:
            target = ex.model[op[1] % len(ex.model)].kind
            if target == 'L':
                target += '<' + ex.model[op[1] % len(ex.model)].linked.kind \
                    + '>'
        run.violate(clause, case, detail, exc=exc,
                    input_class='%s on %s' % (op[0], target))


REPLAY = {'history': run_history}

values = st.one_of(st.none(), st.integers(0, 3), st.sampled_from(['a', 'b']))
idx = st.integers(0, MAX_CTX - 1)


def make_machine(run):
    class Machine(RuleBasedStateMachine):
        def __init__(self):
            super().__init__()
            self.ops = []
            self.ex = Exec()
            self.failed = False

        def do(self, op):
            if self.failed:
                return
            self.ops.append(op)
            bad = self.ex.apply(op) or self.ex.compare()
            if bad is not None:
                self.failed = True
                # re-run through the shared path so that counting, class and
                # signature are identical to replay
                run_history(run, {'kind': 'history', 'ops': list(self.ops)},
                            count=False)

        def n(self):
            return len(self.ex.real)

        @rule(conv=st.booleans())
        def root(self, conv):
            if self.n() < MAX_CTX:
                self.do(['root', conv])

        @precondition(lambda self: 0 < self.n() < MAX_CTX)
        @rule(i=idx)
        def child(self, i):
            self.do(['child', i])

        @precondition(lambda self: 0 < self.n() < MAX_CTX)
        @rule(members=st.lists(idx, min_size=1, max_size=3))
        def multi(self, members):
            self.do(['multi', members])

        @precondition(lambda self: 0 < self.n() < MAX_CTX)
        @rule(p=idx, l=idx)
        def linked(self, p, l):
            self.do(['linked', p, l])

        @precondition(lambda self: 0 < self.n() < MAX_CTX)
        @rule(l=idx)
        def linked_without_parent(self, l):
            self.do(['linked0', l])

        @precondition(lambda self: self.n() > 0)
        @rule(i=idx, name=st.sampled_from(VAR_NAMES), v=values)
        def set_(self, i, name, v):
            self.do(['set', i, name, v])

        @precondition(lambda self: self.n() > 0)
        @rule(i=idx, name=st.sampled_from(VAR_NAMES))
        def del_(self, i, name):
            self.do(['del', i, name])

        @precondition(lambda self: self.n() > 0)
        @rule(i=idx, name=st.sampled_from(FN_NAMES), method=st.booleans(),
              excl=st.sampled_from([False, False, True]))
        def reg(self, i, name, method, excl):
            self.do(['reg', i, name, method, excl])

        @precondition(lambda self: self.n() > 0 and self.ex.defs)
        @rule(i=idx, j=st.integers(0, 30),
              excl=st.sampled_from([False, False, True]))
        def rereg(self, i, j, excl):
            self.do(['rereg', i, j, excl])

        @precondition(lambda self: self.n() > 0 and self.ex.defs)
        @rule(i=idx, k=st.integers(0, 50))
        def unreg(self, i, k):
            self.do(['unreg', i, k])

        def teardown(self):
            if self.ops and not self.failed:
                run_history(run, {'kind': 'history', 'ops': list(self.ops)})

    return Machine


def _shard(run, n, steps, shard):
    run.machine('contexts', make_machine(run), n, steps, shard=shard)


def directed_histories(pads):
    """members of a multi-context that have different parents which define
    the same names: roots (after `pad` unrelated ones, so that the objects
    land at other addresses) each set a variable and register a function,
    one child per root, a multi-context over the children in every order,
    then a child of it and a linked context over it"""
    import itertools
    for pad in pads:
        for k in (2, 3):
            for perm in itertools.permutations(range(k)):
                ops = [['root', False] for _ in range(pad)]
                ops += [['root', False] for _ in range(k)]
                for j in range(k):
                    ops.append(['set', pad + j, '$x', j])
                    ops.append(['set', pad + j, 'x', 'abc'[j]])
                    ops.append(['reg', pad + j, 'f', False, False])
                ops += [['child', pad + j] for j in range(k)]
                ops.append(['multi', [pad + k + j for j in perm]])
                multi = pad + 2 * k
                ops.append(['child', multi])
                ops.append(['linked', pad, multi])
                ops.append(['set', multi, '$zz', 1])
                yield {'kind': 'history', 'ops': ops}
                # one definition held by several members, deleted through
                # the multi-context
                ops = list(ops)
                for j in range(k):
                    ops.append(['rereg', pad + k + j, 0, j == k - 1])
                ops.append(['unreg', multi, 0])
                ops.append(['child', multi])
                yield {'kind': 'history', 'ops': ops}


def _directed_shard(run, pads):
    for case in directed_histories(pads):
        run_history(run, case)


def run(run):
    full = run.tier == 'thorough'
    pads = list(range(0, 32 if full else 12))
    run.shards(_directed_shard, [(pads[i::4],) for i in range(4)])
    k = 16
    n = (12000 if full else 1600) // k
    steps = 60 if full else 30
    run.shards(_shard, [(n, steps, i) for i in range(k)])

"""C08 - iterator limit and memory quota bound every evaluation.

(a) sweep: an endless instrumented source in every visible parameter position
    of every registered definition (also as the result of a lambda and nested
    in a list), under limitIterators=N; the source carries a pull budget.
(b) result shapes around the boundary N-1, N, N+1.
(c) pipelines over endless sources.
(d) memory quota: grow chains with wrapped payloads recording argument
    sizes; repetition must refuse before allocating.
"""
import math
import sys
import tracemalloc

from hypothesis import strategies as st

from vf import common, stdlib_walk as W
from vf.common import HarnessAbort, Source
from yaql.language import exceptions as yexc
from yaql.language import utils as yutils

RULE = ('(a) every registered definition x every visible parameter position '
        '(plus lambda-result and nested-in-list variants) x N in a small set '
        'with an endless Python-level source carrying a pull budget of N+2 '
        '(a one-shot iterator, and an unsized re-iterable host collection); '
        '(b) Hypothesis: host data and expressions producing nested '
        'containers of sizes N-1, N, N+1 (engine created with the limits, '
        'or the limits passed per call after the same text ran under '
        'generous ones); (c) pipeline templates over endless '
        'sources; (d) Hypothesis: grow chains (concatenation, repetition with '
        'counts up to 10**12, join, replace, aggregate, accumulate, toList/'
        'toDict/groupBy/distinct/memorize/generate; integers grown by pow, '
        'shifts, repeated squaring and products, or supplied as data) under '
        'quota Q. '
        'non-trivial: sweep = payload entered with the source bound or the '
        'source pulled at least once; shapes = some container size in {N, '
        'N+1}; quota = predicted size of some intermediate > Q/2; distinct = '
        'distinct case')
ASSUMPTIONS = [
    'sources are Python-level iterators with a pull budget; exceeding it '
    'aborts the evaluation with a harness BaseException (no wall clock)',
    'the quota is defined on own (shallow) size as reported by '
    'sys.getsizeof; deep size is not bounded by yaql and not checked',
    'refusal before allocating is judged by tracemalloc peak < Q + 256 KiB '
    'around the evaluation',
]

BIGQ = 10 ** 7


def _engine(n, q=BIGQ, **kw):
    opts = {'yaql.limitIterators': n, 'yaql.memoryQuota': q}
    opts.update({'yaql.' + k: v for k, v in kw.items()})
    return common.engine(opts)


def max_container(x, depth=0):
    """largest container size at any depth of a (finalised) result"""
    if depth > 50:
        return 0
    if isinstance(x, dict):
        m = len(x)
        for k, v in x.items():
            m = max(m, max_container(k, depth + 1),
                    max_container(v, depth + 1))
        return m
    if isinstance(x, (list, tuple, set, frozenset)):
        m = len(x)
        for v in x:
            m = max(m, max_container(v, depth + 1))
        return m
    return 0


# --------------------------------------------------------------------------
# (a) sweep

_STATE = {}


def _sweep_ctx():
    if 'ctx' not in _STATE:
        _STATE['entered'] = []
        _STATE['ctx'] = W.clone_context(
            on_enter=lambda d, a, kw: _STATE['entered'].append(d.id))
    return _STATE['ctx']


VARIANTS = ['direct', 'lambda-result', 'in-list']


def check_sweep(run, case):
    """case: {kind: sweep, def, where: [kind, key], variant, n, fill}"""
    defs = {d.id: d for d in W.definitions()}
    d = defs.get(case['def'])
    if d is None:
        run.exclude('definition no longer registered: ' + case['def'])
        return
    n = case['n']
    where = None
    for w in W.positions(d):
        if [w[0], w[1]] == case['where']:
            where = w
    if where is None:
        run.exclude('parameter position no longer exists')
        return
    variant = case.get('variant', 'direct')
    p = where[2]
    if variant == 'lambda-result' and p.cls != 'Lambda':
        return
    src = common.ReSource(budget=n + 2) if case.get(
        'srckind') == 'reiterable' else Source(budget=n + 2)
    call = W.default_call(d, case.get('fill', 0))
    target = {'direct': ('src', '$src'), 'lambda-result': ('src', '$src'),
              'in-list': ('src', '[$src]')}[variant]
    if variant == 'direct' and p.cls == 'Lambda':
        return          # covered by lambda-result
    call = W.with_target(call, where, target)
    text, binds = call.render()
    ctx = _sweep_ctx()
    del _STATE['entered'][:]
    run.guard(case)
    aborted = False
    try:
        out = ('ok', W.evaluate(text, binds, ctx, _engine(n),
                                extra={'src': src}))
    except HarnessAbort:
        aborted = True
        out = ('abort', None)
    except RecursionError as e:
        out = ('exc', e)
    except Exception as e:    # noqa
        out = ('exc', e)
    entered = d.id in _STATE['entered']
    ic = '%s(%s)/%s' % (d.fd.name, p.name, variant)
    run.case(case, entered or src.pulls > 0,
             cls=['sweep', 'variant=' + variant, 'source=' + case.get(
                 'srckind', 'iterator')] + (
                 ['payload-entered'] if entered else []) + (
                 ['source-pulled'] if src.pulls else []))
    if aborted:
        run.violate('source-pulled-beyond-limit', case,
                    '%s with limitIterators=%d pulled more than %d items '
                    'from the source bound to %s.%s' % (
                        text, n, n + 1, d.fd.name, p.name), input_class=ic)
        return
    if out[0] == 'ok' and max_container(out[1]) > n:
        run.violate('oversize-container-in-result', case,
                    '%s with limitIterators=%d returned a container of %d '
                    'elements' % (text, n, max_container(out[1])),
                    input_class=ic)
    if out[0] == 'exc' and isinstance(out[1], (MemoryError, RecursionError)):
        run.violate('resource-exhaustion-instead-of-limit', case,
                    '%s raised %s' % (text, type(out[1]).__name__),
                    exc=out[1], input_class=ic)


def _sweep_shard(run, part, parts, ns, fills):
    jobs = []
    for d in W.definitions():
        for w in W.positions(d):
            for variant in VARIANTS:
                for n in ns:
                    for f in range(fills):
                        jobs.append({'kind': 'sweep', 'def': d.id,
                                     'where': [w[0], w[1]],
                                     'variant': variant, 'n': n, 'fill': f})
                if variant != 'lambda-result':
                    # the same with an unsized re-iterable host collection
                    jobs.append({'kind': 'sweep', 'def': d.id,
                                 'where': [w[0], w[1]], 'variant': variant,
                                 'n': ns[0], 'fill': 0,
                                 'srckind': 'reiterable'})
    for c in jobs[part::parts]:
        check_sweep(run, c)


# --------------------------------------------------------------------------
# (b) result shapes

SHAPE_TEMPLATES = [
    # (text, function k -> model value whose container sizes are known)
    ('range($k)', lambda k: list(range(k))),
    ('range($k).toList()', lambda k: list(range(k))),
    ('range($k).select($ + 1)', lambda k: list(range(k))),
    ('[range($k)]', lambda k: [list(range(k))]),
    ('[[range($k)], 1]', lambda k: [[list(range(k))], 1]),
    ('{a => range($k)}', lambda k: {'a': list(range(k))}),
    ('{a => {b => range($k).toList()}}',
     lambda k: {'a': {'b': list(range(k))}}),
    ('range($k).toSet()', lambda k: set(range(k))),
    ('dict(range($k).select([$, $]))', lambda k: {i: i for i in range(k)}),
    ('range($k).toDict($, [$])', lambda k: {i: [i] for i in range(k)}),
    ('range($k).select(range($k))',
     lambda k: [list(range(k)) for _ in range(k)]),
    ('range(2).select(range($k))', lambda k: [list(range(k))] * 2),
    ('dict(a => range($k)).values()', lambda k: [list(range(k))]),
    ('dict(range($k).select([$, $])).keys()', lambda k: list(range(k))),
    ('dict(range($k).select([$, $])).items()',
     lambda k: [[i, i] for i in range(k)]),
    ('range($k).orderBy($)', lambda k: list(range(k))),
    ('range($k).groupBy($)', lambda k: [[i, [i]] for i in range(k)]),
    ('range($k).zip(range($k))', lambda k: [[i, i] for i in range(k)]),
    ('range($k).memorize()', lambda k: list(range(k))),
    ("'a' * $k", lambda k: 'a' * k),     # strings are not collections
    ("('a' * $k).toCharArray()", lambda k: ['a'] * k),
    ("'a b'.split(' ') * $k", lambda k: ['a', 'b'] * k),
]


def _build_data(shape, k):
    """nested host data; 'k' marks where the size-k container sits"""
    def gen(n):
        return (i for i in range(n))
    kinds = {
        'list': lambda: list(range(k)), 'tuple': lambda: tuple(range(k)),
        'set': lambda: set(range(k)), 'frozenset': lambda: frozenset(range(k)),
        'dict': lambda: {i: i for i in range(k)}, 'gen': lambda: gen(k),
        'iter': lambda: iter(list(range(k))),
        'range': lambda: range(k),
    }
    inner = kinds[shape['inner']]()
    for wrap in reversed(shape['wraps']):
        if wrap == 'list':
            inner = [0, inner]
        elif wrap == 'tuple':
            inner = (inner,)
        elif wrap == 'dict':
            inner = {'a': inner}
        elif wrap == 'gen':
            inner = (x for x in [inner])
        elif wrap == 'setmember':
            inner = {inner, 0}
        elif wrap == 'dictkey':
            inner = {inner: 0}
    return inner


class _PerCallAfterPlain:
    """one base engine with generous limits; the text is first parsed and
    evaluated under those, then again with the strict limits passed per
    call - engine(text, options) - which is what must hold"""

    def __init__(self, n, sets_to_lists):
        self.base = common.engine({'yaql.limitIterators': 10 ** 6,
                                   'yaql.memoryQuota': BIGQ})
        self.opts = {'yaql.limitIterators': n,
                     'yaql.convertSetsToLists': sets_to_lists}

    def __call__(self, text):
        try:
            self.base(text)
        except Exception:   # noqa
            pass
        return self.base(text, dict(self.opts))


def check_shape(run, case):
    n, k = case['n'], case['k']
    if case.get('via') == 'percall-after-plain':
        eng = _PerCallAfterPlain(n, case.get('sets_to_lists', False))
    else:
        eng = _engine(n, convertSetsToLists=case.get('sets_to_lists', False))
    if 'template' in case:
        text, model = SHAPE_TEMPLATES[case['template']]
        expected_max = max_container(model(k))
        ctx = common.child()
        ctx['$k'] = k
        run.guard(case)
        try:
            out = ('ok', eng(text).evaluate(context=ctx))
        except Exception as e:   # noqa
            out = ('exc', e)
        desc = '%s with k=%d' % (text, k)
    else:
        data = _build_data(case['shape'], k)
        expected_max = max(k, 2 if ('list' in case['shape']['wraps'] or
                                    'setmember' in case['shape']['wraps'])
                           else 1)
        if not case['shape']['wraps']:
            expected_max = k
        run.guard(case)
        try:
            out = ('ok', eng('$').evaluate(data=data, context=common.child()))
        except Exception as e:   # noqa
            out = ('exc', e)
        desc = '$ with data shape %r, k=%d' % (case['shape'], k)
    run.case(case, k in (n, n + 1), cls=['shape', 'via=' + case.get(
        'via', 'own-engine'), (
        'over' if expected_max > n else 'within')])
    ic = case.get('shape', {}).get('inner') if 'shape' in case else \
        'template:' + SHAPE_TEMPLATES[case['template']][0]
    if expected_max > n:
        if out[0] == 'ok':
            run.violate('oversize-container-returned', case,
                        '%s under limitIterators=%d returned %r (largest '
                        'container %d)' % (desc, n, _short(out[1]),
                                           max_container(out[1])),
                        input_class=str(ic))
        elif not isinstance(out[1], yexc.CollectionTooLargeException):
            run.violate('wrong-exception-for-oversize', case,
                        '%s under limitIterators=%d raised %s: %s' % (
                            desc, n, type(out[1]).__name__, out[1]),
                        exc=out[1], input_class=str(ic))
    else:
        hashpos = 'shape' in case and (
            'dictkey' in case['shape']['wraps'] or (
                'setmember' in case['shape']['wraps'] and
                not case.get('sets_to_lists', False)))
        if hashpos and out[0] != 'ok' and isinstance(out[1], TypeError):
            run.exclude('container in a hashable position fails to finalise '
                        '(C10 known finding)')
        elif out[0] != 'ok':
            run.violate('within-limit-but-raises', case,
                        '%s under limitIterators=%d (largest container %d) '
                        'raised %s: %s' % (desc, n, expected_max,
                                           type(out[1]).__name__, out[1]),
                        exc=out[1], input_class=str(ic))
        elif max_container(out[1]) > n:
            run.violate('oversize-container-returned', case,
                        '%s returned largest container %d > %d' % (
                            desc, max_container(out[1]), n),
                        input_class=str(ic))


def _short(x):
    s = repr(x)
    return s if len(s) < 120 else s[:120] + '...'


# --------------------------------------------------------------------------
# (c) pipelines over endless sources

PIPELINES = [
    '$src', '$src.select($ * 2)', '$src.where($ mod 2 = 0)',
    '$src.skip(3)', '$src.takeWhile($ >= 0)', '$src.skipWhile($ < 5)',
    '$src.distinct()', '$src.enumerate()', '$src.zip($src2)',
    '$src.append(1)', '$src.concat([1])', '[1].concat($src)',
    '$src.accumulate($1 + $2)', '$src.insert(1, 9)', '$src.delete(1)',
    '$src.replace(1, 9)', '$src.memorize()', '$src.selectMany([$, $])',
    '$src.orderBy($)', '$src.reverse()', '$src.toList()', '$src.len()',
    'len($src)', '$src.sum()', '$src.max()', '$src.last()', '$src.count()',
    '$src.toSet()', '$src.groupBy($ mod 3)', '$src.toDict($, $)',
    '$src.join([1, 2], $1 = $2, [$1, $2])', '[1, 2].join($src, true, $2)',
    '$src.any($ < 0)', '$src.all($ >= 0)', '$src.indexOf(-1)',
    '$src.lastIndexOf(1)', '$src.indexWhere($ < 0)', '$src.contains(-1)',
    '-1 in $src', '$src.first(-1) + $src.sum()', '$src.splitWhere($ < 0)',
    '$src.sliceWhere($ < 0)', '$src.slice(7)', '$src.splitAt(5)',
    '$src.aggregate($1 + $2)', 'list($src)', 'list($src, $src2)',
    'set($src)', 'dict($src.select([$, $]))', '$src.cycle()',
    'generateMany(0, $src)', 'generateMany(0, [$ + 1, $ + 2])',
    'generate(0, true, $ + 1)', 'repeat(1)', 'sequence()',
    'sequence().len()', 'range(0).concat(sequence())', '[$src]',
    '{a => $src}', '$src.select($src2)', '$src.select([$src2])',
    'str($src)', '$src = $src2', '$src.defaultIfEmpty([1])',
    '$src.mergeWith({})', 'let(x => $src) -> $x.len()',
    '$src.where($ > 100).first()', '$src.skip(1000).first()',
]


def check_pipeline(run, case):
    n = case['n']
    text = case['text']
    src = Source(budget=2 * n + 50)
    src2 = Source(budget=2 * n + 50)
    ctx = common.child()
    ctx['$src'] = src
    ctx['$src2'] = src2
    run.guard(case)
    try:
        out = ('ok', _engine(n)(text).evaluate(context=ctx))
    except HarnessAbort:
        out = ('abort', None)
    except Exception as e:   # noqa
        out = ('exc', e)
    run.case(case, True, cls=['pipeline', 'outcome=' + (
        out[0] if out[0] != 'exc' else type(out[1]).__name__)])
    if out[0] == 'abort':
        run.violate('endless-source-not-bounded', case,
                    '%s under limitIterators=%d pulled more than %d items' % (
                        text, n, 2 * n + 50), input_class=text)
    elif out[0] == 'ok' and max_container(out[1]) > n:
        run.violate('oversize-container-in-result', case,
                    '%s returned largest container %d > %d' % (
                        text, max_container(out[1]), n), input_class=text)
    elif out[0] == 'exc' and isinstance(out[1], (MemoryError,
                                                 RecursionError)):
        run.violate('resource-exhaustion-instead-of-limit', case,
                    '%s raised %s' % (text, type(out[1]).__name__),
                    exc=out[1], input_class=text)


# --------------------------------------------------------------------------
# (d) memory quota

_Q = {}
# the quota is about data values; lazy iterators, lambdas and contexts have
# a small fixed own size that says nothing about the data they will produce
DATA = (str, bytes, list, tuple, dict, set, frozenset, yutils.FrozenDict,
        int)


def _own_size(v):
    """own size of a data value; a frozen dictionary is the table it wraps
    (the wrapper object alone is 48 bytes whatever it holds), measured on a
    plain dict of the same items so as not to depend on yaql's accounting"""
    if isinstance(v, yutils.FrozenDict):
        return sys.getsizeof(dict(v.items()), 0)
    return sys.getsizeof(v, 0)


class _Counting:
    """one-shot source of the integers 1..total that counts its pulls"""

    def __init__(self, total):
        self.total = total
        self.pulled = 0

    def __iter__(self):
        return self

    def __next__(self):
        if self.pulled >= self.total:
            raise StopIteration()
        self.pulled += 1
        return self.pulled


def _quota_ctx():
    if 'ctx' not in _Q:
        _Q['seen'] = []

        def on_enter(d, a, kw):
            for v in list(a) + list(kw.values()):
                if isinstance(v, DATA):
                    _Q['seen'].append((d.fd.name, _own_size(v),
                                       type(v).__name__))

        def on_return(d, r):
            _Q['ret'] = (d.fd.name, _own_size(r), type(r).__name__)
        _Q['ctx'] = W.wrapped_context(on_enter, on_return)
    return _Q['ctx']


# templates: text, binds builder, predicted own size of the largest value
def _str_size(chars):
    return 49 + chars


def _list_size(items):
    return 56 + 8 * items


QUOTA_TEMPLATES = {
    'str*n': ('$s * $n', lambda c: _str_size(len(c['s']) * max(c['n'], 0))),
    'n*str': ('$n * $s', lambda c: _str_size(len(c['s']) * max(c['n'], 0))),
    'list*n': ('$l * $n', lambda c: _list_size(len(c['l']) * max(c['n'], 0))),
    'n*list': ('$n * $l', lambda c: _list_size(len(c['l']) * max(c['n'], 0))),
    'tuple*n': ('$t * $n',
                lambda c: _list_size(len(c['l']) * max(c['n'], 0))),
    'double-str': (None, lambda c: _str_size(len(c['s']) * 2 ** c['d'])),
    'double-list': (None, lambda c: _list_size(len(c['l']) * 2 ** c['d'])),
    'aggregate-str': ('range($d).aggregate($1 + $1, $s)',
                      lambda c: _str_size(len(c['s']) * 2 ** c['d'])),
    'accumulate-list': ('range($d).accumulate($1 + $1, $l).last()',
                        lambda c: _list_size(len(c['l']) * 2 ** c['d'])),
    'join': ('range($m).select($s).join($s)',
             lambda c: _str_size(len(c['s']) * (2 * c['m']))),
    'replace': ("$s.replace($s, $s * $n)",
                lambda c: _str_size(len(c['s']) * max(c['n'], 0))),
    'toList': ('range($m).toList()', lambda c: _list_size(c['m'])),
    'toDict': ('range($m).toDict($, $)', lambda c: 64 + 36 * c['m']),
    'toSet': ('range($m).toSet()', lambda c: 216 + 32 * c['m']),
    'distinct': ('range($m).distinct().toList()',
                 lambda c: _list_size(c['m'])),
    'groupBy': ('range($m).groupBy($).toList()',
                lambda c: _list_size(c['m'])),
    'memorize': ('range($m).memorize().len()', lambda c: _list_size(c['m'])),
    # a remembered collection that is read a second time, further than the
    # first time
    'memorize-second-pass': ('let(c => range($m).memorize()) -> '
                             '[$c.first(), $c.len()]',
                             lambda c: _list_size(c['m'])),
    'memorize-take-then-all': ('let(c => range($m).memorize()) -> '
                               '($c.take(3).len() + $c.len())',
                               lambda c: _list_size(c['m'])),
    'defaultIfEmpty-all': ('range($m).defaultIfEmpty([1]).len()',
                           lambda c: _list_size(c['m'])),
    'assert-then-all': ('range($m).assert($.first() >= 0).len()',
                        lambda c: _list_size(c['m'])),
    # dictionaries that are consumed by another function instead of being
    # returned
    'toDict-consumed': ('range($m).toDict($, $).len()',
                        lambda c: 64 + 36 * c['m']),
    'toDict-in-let': ('let(d => range($m).toDict($, $)) -> $d.get(1)',
                      lambda c: 64 + 36 * c['m']),
    'concat-dicts-consumed': ('(dict(range($m).select([$, $])) + '
                              'dict(range($m, 2 * $m).select([$, $]))).len()',
                              lambda c: 64 + 72 * c['m']),
    # accumulation from a counting source of Q/4 items (no iterator limit):
    # the functions that check the quota per step stop pulling when what
    # they hold no longer fits - a container of k items is at least 8k bytes
    'pulls-toDict': ('$src.toDict($, $).len()', lambda c: 2 * c['q']),
    'pulls-toDict-key': ('$src.toDict($).containsKey(-1)',
                         lambda c: 2 * c['q']),
    'pulls-toDict-nested': ('[1, $src.toDict($, $)]', lambda c: 2 * c['q']),
    'pulls-distinct': ('$src.distinct().len()', lambda c: 2 * c['q']),
    'pulls-groupBy': ('$src.groupBy($).len()', lambda c: 2 * c['q']),
    'pulls-memorize': ('$src.memorize().len()', lambda c: 2 * c['q']),
    # an oversize collection that is only ever *inside* something: in the
    # host's data, or built as a member of a result
    'nested-in-input': ('$nd', lambda c: _list_size(len(c['nd']['a']))),
    'nested-in-input-items': ('$nd.items().toList()',
                              lambda c: _list_size(len(c['nd']['a']))),
    'nested-groupBy-values': ('range($m).groupBy(1)',
                              lambda c: _list_size(c['m'])),
    # two dictionaries that each fit; their union does not
    'dict-plus-consumed': ('($hd1 + $hd2).len()',
                           lambda c: sys.getsizeof(dict(
                               list(c['hd1'].items()) +
                               list(c['hd2'].items())))),
    'dict-plus-in-let': ('let(d => $hd1 + $hd2) -> $d.containsKey(1)',
                         lambda c: sys.getsizeof(dict(
                             list(c['hd1'].items()) +
                             list(c['hd2'].items())))),
    'dict-set-consumed': ('dict(range($m).select([$, $])).set(-1, 1)'
                          '.set(-2, 2).keys().len()',
                          lambda c: 64 + 36 * c['m']),
    'generate': ('generate(0, $ < $m, $ + 1).toList()',
                 lambda c: _list_size(c['m'])),
    'concat-dicts': ('dict(range($m).select([$, $])) + {x => 1}',
                     lambda c: 64 + 36 * c['m']),
    'str': ('str($s * $n)', lambda c: _str_size(len(c['s']) * max(c['n'], 0))),
    # integers are data too: they grow without bound
    # operands and result all within the quota, the operand sizes together
    # above it: the concatenation fits and is returned
    'plus-fits': ('$f1 + $f2', lambda c: _str_size(len(c['f1']) +
                                                   len(c['f2']))),
    'plus-empty': ("($f3 + '').len() + ('' + $f3).len() + "
                   "concat($f3, '').len()",
                   lambda c: _str_size(len(c['f3']))),
    # a lazy inner collection that join() has to remember
    'join-lazy-inner': ('[5, 7].join(range($m * 40).select($), $1 = $2, '
                        '[$1, $2]).len()',
                        lambda c: _list_size(c['m'] * 40)),
    'int-pow': ('pow(2, $m * 64)',
                lambda c: sys.getsizeof(1 << (c['m'] * 64))),
    'int-shift': ('shiftBitsLeft(1, $m * 64) + 1',
                  lambda c: sys.getsizeof(1 << (c['m'] * 64))),
    'int-squaring': ('range($d).aggregate($1 * $1, 3)',
                     lambda c: sys.getsizeof(3 ** (2 ** c['d']))),
    'int-product': ('range(1, $m + 2).aggregate($1 * $2)',
                    lambda c: sys.getsizeof(math.factorial(c['m'] + 1))),
    'int-argument': ('isInteger($big) and $big > 0',
                     lambda c: sys.getsizeof(1 << (c['m'] * 64))),
    'int-in-list': ('[$big, 1].len()',
                    lambda c: sys.getsizeof(1 << (c['m'] * 64))),
    # an oversized value built from within-quota operands *inside* a lambda
    # body or a mapping rule and returned nested in a small container
    'nested-select-concat': ('[1, 2].select(concat($h, $h))',
                             lambda c: _str_size(2 * len(c['h']))),
    'nested-select-plus': ('[1].select([$h + $h])',
                           lambda c: _str_size(2 * len(c['h']))),
    'nested-toDict': ("[1, 2].toDict($, $h.replace('x', 'xy'))",
                      lambda c: _str_size(2 * len(c['h']))),
    'nested-dict-rule': ('dict(a => $h + $h)',
                         lambda c: _str_size(2 * len(c['h']))),
    'nested-map-in-select': ('[1].select({k => $h + $h})',
                             lambda c: _str_size(2 * len(c['h']))),
    'nested-join': ("[1].select([$h, $h].join(''))",
                    lambda c: _str_size(2 * len(c['h']))),
    'nested-let': ('[let(x => $h + $h) -> [$x]]',
                   lambda c: _str_size(2 * len(c['h']))),
    'nested-list-plus': ('[1].select([$hl + $hl])',
                         lambda c: _list_size(2 * len(c['hl']))),
    # a literal constant larger than the quota handed straight to a function
    'literal-len': ("len('{LIT}')", lambda c: _str_size(c['m'] * 4)),
    'literal-isString': ("isString('{LIT}')", lambda c: _str_size(c['m'] * 4)),
    'literal-eq': ("'{LIT}' = 1", lambda c: _str_size(c['m'] * 4)),
    'literal-list': ("['{LIT}', 1].len()", lambda c: _str_size(c['m'] * 4)),
    'literal-let': ("let(x => '{LIT}') -> 1", lambda c: _str_size(c['m'] * 4)),
}
REPETITION = ('str*n', 'n*str', 'list*n', 'n*list', 'tuple*n')


def _largest_own_size(x, depth=0):
    """(own size, type name, depth) of the largest data value anywhere in a
    result"""
    best = (0, '-', depth)
    if isinstance(x, DATA) and not isinstance(x, bool):
        best = (_own_size(x), type(x).__name__, depth)
    if depth < 30:
        kids = []
        if isinstance(x, (dict, yutils.FrozenDict)):
            kids = list(x.keys()) + list(x.values())
        elif isinstance(x, (list, tuple, set, frozenset)):
            kids = list(x)
        for k in kids[:1000]:
            b = _largest_own_size(k, depth + 1)
            if b[0] > best[0]:
                best = b
    return best


def check_quota(run, case):
    q = case['q']
    c = dict(case)
    name = case['template']
    text, predict = QUOTA_TEMPLATES[name]
    if text is None:
        base = '$s' if name == 'double-str' else '$l'
        text = 'let(x => %s) -> ' % base + \
            'let(x => $x + $x) -> ' * case['d'] + '$x'
    text = text.replace('{LIT}', 'abcd' * case.get('m', 0))
    c['l'] = list(range(case.get('ll', 2)))
    # operands of about 0.6 Q: within the quota, their concatenation is not
    c['h'] = 'x' * max(int(q * 0.6) - 49, 1)
    c['hl'] = tuple(range(max((int(q * 0.6) - 56) // 8, 1)))
    total = max(q - 60, 2)           # len(f1) + len(f2): result = Q - 11
    c['f1'] = 'y' * (total // 2)
    c['f2'] = 'z' * (total - total // 2)
    c['f3'] = 'w' * max(q - 49 - 8, 1)
    k = 1
    while _own_size(yutils.FrozenDict(
            (i, i) for i in range(k + 1))) <= q and k < 5000:
        k += 1
    c['hd1'] = yutils.FrozenDict((i, i) for i in range(k))
    c['hd2'] = yutils.FrozenDict((i, i) for i in range(k, 2 * k))
    c['nd'] = yutils.FrozenDict({'a': tuple(range(q // 8 + 10)), 'b': 1})
    predicted = predict(c)
    ctx = _quota_ctx().create_child_context()
    ctx['$hd1'] = c['hd1']
    ctx['$hd2'] = c['hd2']
    src = _Counting(max(q // 4, 64))
    ctx['$src'] = src
    ctx['$nd'] = c['nd']
    for k in ('s', 'n', 'd', 'm'):
        if k in case:
            ctx['$' + k] = case[k]
    ctx['$l'] = c['l']
    ctx['$t'] = tuple(c['l'])
    ctx['$big'] = 1 << (case.get('m', 0) * 64)
    ctx['$h'] = c['h']
    ctx['$hl'] = c['hl']
    for k in ('f1', 'f2', 'f3'):
        ctx['$' + k] = c[k]
    del _Q['seen'][:]
    eng = _engine(10 ** 6, q, convertInputData=False)
    run.guard(case)
    measure = name in REPETITION or name in ('replace', 'str')
    if measure:
        tracemalloc.start()
        tracemalloc.reset_peak()
    try:
        out = ('ok', eng(text).evaluate(context=ctx))
    except Exception as e:   # noqa
        out = ('exc', e)
    peak = 0
    if measure:
        peak = tracemalloc.get_traced_memory()[1]
        tracemalloc.stop()
    run.case(case, predicted > q / 2,
             cls=['quota', 'template=' + name,
                  'predicted>' + ('Q' if predicted > q else 'Q/2'
                                  if predicted > q / 2 else '0')])
    big = [(f, s, t) for f, s, t in _Q['seen'] if s > q]
    if big:
        run.violate('oversize-value-passed-to-function', case,
                    '%s under memoryQuota=%d: %s received a %s of own size '
                    '%d' % (text, q, big[0][0], big[0][2], big[0][1]),
                    input_class=name + '->' + big[0][0])
        return
    if out[0] == 'ok':
        worst = _largest_own_size(out[1])
        if worst[0] > q:
            run.violate('oversize-value-returned', case,
                        '%s under memoryQuota=%d returned a %s of own size '
                        '%d (%s)' % (text, q, worst[1], worst[0],
                                     'top level' if worst[2] == 0 else
                                     'nested at depth %d' % worst[2]),
                        input_class=name)
            return
    if out[0] == 'exc' and isinstance(out[1], MemoryError):
        run.violate('allocated-instead-of-refusing', case,
                    '%s under memoryQuota=%d raised MemoryError' % (text, q),
                    input_class=name)
        return
    if name in REPETITION and predicted > 2 * q + 1024:
        if not (out[0] == 'exc' and isinstance(
                out[1], yexc.MemoryQuotaExceededException)):
            run.violate('repetition-over-quota-not-refused', case,
                        '%s under memoryQuota=%d (predicted own size %d) -> '
                        '%s' % (text, q, predicted, _short(out[1])),
                        exc=out[1] if out[0] == 'exc' else None,
                        input_class=name)
        elif peak > q + 256 * 1024:
            run.violate('repetition-allocated-before-refusing', case,
                        '%s under memoryQuota=%d: peak allocation %d bytes '
                        'before MemoryQuotaExceededException' % (
                            text, q, peak), input_class=name)
    if name in ('join-lazy-inner', 'memorize', 'memorize-second-pass',
                'memorize-take-then-all', 'defaultIfEmpty-all',
                'assert-then-all') and \
            predicted > 2 * q + 1024 and not (
            out[0] == 'exc' and isinstance(
                out[1], yexc.MemoryQuotaExceededException)):
        run.violate('accumulation-over-quota-not-refused', case,
                    '%s under memoryQuota=%d keeps a collection of '
                    'predicted own size %d -> %s' % (
                        text, q, predicted, _short(out[1])),
                    exc=out[1] if out[0] == 'exc' else None,
                    input_class=name)
        return
    if name.startswith('pulls-'):
        if not (out[0] == 'exc' and isinstance(
                out[1], yexc.MemoryQuotaExceededException)):
            run.violate('accumulation-over-quota-not-refused', case,
                        '%s under memoryQuota=%d over %d items -> %s' % (
                            text, q, src.total, _short(out[1])),
                        exc=out[1] if out[0] == 'exc' else None,
                        input_class=name)
        elif src.pulled > q // 8 + 16:
            run.violate('accumulated-past-quota-before-refusing', case,
                        '%s under memoryQuota=%d pulled %d items before '
                        'MemoryQuotaExceededException (a container of %d '
                        'items is at least %d bytes)' % (
                            text, q, src.pulled, src.pulled, 8 * src.pulled),
                        input_class=name)
        return
    if name in ('plus-fits', 'plus-empty') and out[0] == 'exc' and \
            isinstance(out[1], yexc.MemoryQuotaExceededException):
        run.violate('refused-although-result-fits', case,
                    '%s under memoryQuota=%d: every operand and the result '
                    '(own size %d) fit, yet MemoryQuotaExceededException' % (
                        text, q, predicted), input_class=name)
        return
    # (only where the size estimate is exact: ASCII strings and lists; the
    # estimate for non-ASCII strings over-counts the per-string header)
    if predicted < q / 4 and case['s'].isascii() and \
            out[0] == 'exc' and isinstance(
            out[1], yexc.MemoryQuotaExceededException) and \
            name not in ('toDict', 'toSet', 'concat-dicts', 'groupBy',
                         'distinct', 'memorize', 'join', 'generate') and \
            'memorize-' not in name and '-all' not in name and \
            '-consumed' not in name and '-in-let' not in name:
        run.violate('refused-although-far-below-quota', case,
                    '%s under memoryQuota=%d (predicted own size %d) raised '
                    'MemoryQuotaExceededException' % (text, q, predicted),
                    input_class=name)


REPLAY = {'sweep': check_sweep, 'shape': check_shape,
          'pipeline': check_pipeline, 'quota': check_quota}

# --------------------------------------------------------------------------


@st.composite
def shape_cases(draw):
    n = draw(st.integers(0, 12))
    k = draw(st.sampled_from([max(n - 1, 0), n, n + 1, n + 1, n + 2, 0]))
    c = {'kind': 'shape', 'n': n, 'k': k,
         'sets_to_lists': draw(st.booleans())}
    if draw(st.integers(0, 3)) == 0:
        c['via'] = 'percall-after-plain'
    if draw(st.booleans()):
        c['template'] = draw(st.integers(0, len(SHAPE_TEMPLATES) - 1))
    else:
        c['shape'] = {
            'inner': draw(st.sampled_from(['list', 'tuple', 'set',
                                           'frozenset', 'dict', 'gen',
                                           'iter', 'range'])),
            'wraps': draw(st.lists(st.sampled_from(
                ['list', 'tuple', 'dict', 'gen']), max_size=3))}
        if c['shape']['inner'] in ('tuple', 'frozenset') and \
                draw(st.booleans()):
            # the size-k container in a hashable position
            c['shape']['wraps'].append(draw(st.sampled_from(
                ['setmember', 'setmember', 'dictkey'])))
    return c


@st.composite
def quota_cases(draw):
    name = draw(st.sampled_from(sorted(QUOTA_TEMPLATES)))
    q = draw(st.sampled_from([200, 1000, 5000, 20000, 50000]))
    c = {'kind': 'quota', 'template': name, 'q': q,
         's': draw(st.sampled_from(['a', 'ab', 'abcdefghij', 'é' * 5,
                                    'x' * 40])),
         'll': draw(st.integers(1, 6))}
    c['n'] = draw(st.one_of(
        st.integers(-3, 50), st.integers(0, 10 ** 4),
        st.sampled_from([10 ** 6, 10 ** 9, 10 ** 12, 2 ** 31, 2 ** 63 - 1])))
    c['d'] = draw(st.integers(0, 18))
    c['m'] = draw(st.one_of(st.integers(0, 50), st.integers(0, 3000)))
    return c


def _hyp_shard(run, which, n, shard):
    if which == 'shape':
        run.hyp('shapes', shape_cases(), lambda c: check_shape(run, c), n,
                shard=shard)
    else:
        run.hyp('quota', quota_cases(), lambda c: check_quota(run, c), n,
                shard=shard)


def _pipe_shard(run, part, parts, ns):
    jobs = [{'kind': 'pipeline', 'text': t, 'n': n}
            for t in PIPELINES for n in ns]
    for c in jobs[part::parts]:
        check_pipeline(run, c)


def _grid_quota_shard(run, cases):
    for c in cases:
        check_quota(run, c)


def run(run):
    full = run.tier == 'thorough'
    common.std_context(delegates=True)
    W.definitions()
    ns = [0, 1, 3, 7, 20, 40] if full else [3, 20]
    if not full:
        ns = [ns[0], [7, 20, 40][run.seed % 3]]
    fills = 4 if full else 1
    run.shards(_sweep_shard, [(i, 16, ns, fills) for i in range(16)],
               watchdog=120)
    run.shards(_pipe_shard, [(i, 8, ns) for i in range(8)], watchdog=120)
    k = 8
    jobs = [('shape', (20000 if full else 1600) // k, i) for i in range(k)]
    jobs += [('quota', (20000 if full else 1600) // k, i) for i in range(k)]
    run.shards(_hyp_shard, jobs, watchdog=120)
    # every template at fixed boundary arguments (the sampled tier above
    # reaches each template only a few dozen times)
    grid = []
    for name in sorted(QUOTA_TEMPLATES):
        for q in (1000, 20000):
            for n, d, m in ((10 ** 6, 16, 2500), (10 ** 9, 17, 3000),
                            (3, 2, 40), (2 ** 31, 18, 1200)):
                grid.append({'kind': 'quota', 'template': name, 'q': q,
                             's': 'ab', 'll': 3, 'n': n, 'd': d, 'm': m})
    run.shards(_grid_quota_shard, [(grid[i::16],) for i in range(16)],
               watchdog=120)
    run.extra['sweep_definitions'] = len(W.definitions())

"""C18 - concurrent evaluations do not interfere.

Threads evaluate parsed statements of one engine in their own children of one
shared prepared context under a harness-owned scheduler (scheduling points:
function dispatch, instrumented source pulls, FrozenDict iteration), plus a
free-running tier; oracle: each result equals the one computed alone, the
shared context chain is unchanged.
"""
import sys
import threading

from hypothesis import strategies as st

import yaql
from vf import common, sched
from vf.common import Source
from yaql.language import runner as yrunner
from yaql.language import utils as yutils

RULE = ('cases are (assignment of (statement, document) pairs from a pool of '
        '60 statements touching every library module to 2-4 threads, '
        'schedule); systematic: pairs of single statements, all schedules '
        'with <=2 (thorough <=3) preemptions by stateless DFS; random: '
        'Hypothesis-drawn schedules; free-running threads at 1 us switch '
        'interval incl. yaql.eval; non-trivial = >=2 threads were inside an '
        'evaluation at the same time and the schedule switched between two '
        'scheduling points of one evaluation; distinct = distinct (threads, '
        'trace)')
ASSUMPTIONS = [
    'scheduling points: entry of yaql.language.runner.call, every pull from '
    'an instrumented source, FrozenDict.__iter__ (all patched from the '
    'harness as module/class attributes); interleavings inside C-level '
    'calls are only reachable by the free-running tier, which is '
    'probabilistic',
    'a worker that neither parks nor finishes within 10 s makes the case '
    'inconclusive (counted), never a violation',
]

POOL = [
    '1 + 2 * 3 - 4', '$.a + $.b', '10 / 3 + 10 mod 3', '-$.a > $.b or not true',
    "'abc'.toUpper() + str($.a)", "$.s.split(' ').select($.len())",
    "$.s.replace({a => 1, b => 2})", "'x'.join($.items.select(str($)))",
    "regex('(\\w)(\\d)?').searchAll($.s, $1.value)",
    "regex('a(?P<n>.)').search('xab ac', $n.value)",
    "$.s =~ 'a.*' and $.s !~ '^z'", "regex('b').replaceBy($.s, $.value.toUpper())",
    'datetime(2020, 1, 2, 3) + timespan(hours => $.a)',
    '(datetime(2020, 1, 2) - datetime(2019, 1, 2)).days',
    'datetime(100000, timespan(hours => 3)).utc.hour',
    '$.items.where($ > 1).select($ * 2)', '$.items.orderBy(-$).thenBy($)',
    '$.items.orderBy($ mod 2).thenByDescending($)',
    '$.items.groupBy($ mod 2, $, $.sum())', '$.items.distinct().len()',
    '$.items.memorize().select($ + 1).sum()', '$.items.zip($.items.reverse())',
    '$.items.aggregate($1 + $2, 0)', '$.items.accumulate($1 * $2)',
    '$.items.toDict($, $ * $)', '$.items.join($.items, $1 < $2, [$1, $2]).len()',
    '$.items.skip(1).take(2).toList()', '$.items.splitWhere($ mod 2 = 0)',
    '$.items.slice(2)', '$.items.indexOf(2) + $.items.lastIndexOf(2)',
    'let(x => $.a, y => $.b) -> $x * $y', 'def(f, $ * 2) -> f(f($.a))',
    'let(x => 1) -> let(x => $x + 1) -> $x', '[$.a, $.b].unpack(p, q) -> $p - $q',
    'with($.a) -> $1 + 1', '$.d.set(z, 1).keys().orderBy($)',
    '$.d + {n => [1]}', '$.d.mergeWith({k => [9]})', '$.d.items().len()',
    '$.d.k.len()', '$.items.toSet().union(set(7)).len()',
    '$fd.k', '$fd.keys().orderBy($)', 'set($fd).contains($fd)',
    '{$fd => 1}.get($fd)', '[$fd, $fd].distinct().len()',
    '$tup.select($ + $.len())' if False else '$tup.select($ + 1)',
    'hostFn($.a) + hostFn($.b)', '$tup.len() + $hostSet.len()',
    'switch($.a > 1 => big, true => small)', 'coalesce(null, $.a)',
    'selectCase($.a > 5, $.a > 0).switchCase(x, y, z)',
    '$.a?.len()' if False else '$.none?.len()', '$.items.any($ > 2) and $.items.all($ > 0)',
    'range(4).select($ * $.len())' if False else 'range(4).select($ * 2)',
    'generate(0, $ < 4, $ + 1).toList()', 'list($.items, range(2))',
    "characters(digits => true).len()", 'int("12") + float("1.5")',
    '$.items.max() - $.items.min()', 'isString($.s) and isList($.items)',
    '$src.take(3).select($ + 1)', '$src.where($ mod 2 = 0).take(2).sum()',
]
DOCS = [
    {'a': 3, 'b': 4, 's': 'ab a1 b2', 'items': [3, 1, 2, 2],
     'd': {'k': [1, 2], 'j': 5}, 'none': None},
    {'a': -1, 'b': 0, 's': 'zzz', 'items': [5], 'd': {'k': []},
     'none': None},
    {'a': 7, 'b': 7, 's': 'a9', 'items': [2, 4, 6, 1, 1],
     'd': {'k': [3], 'x': {'y': 1}}, 'none': None},
]

_PATCHED = {}


def install_points():
    if _PATCHED:
        return
    orig_call = yrunner.call

    def call(*a, **kw):
        sched.point()
        return orig_call(*a, **kw)
    yrunner.call = call
    orig_iter = yutils.FrozenDict.__iter__

    def fd_iter(self):
        sched.point()
        return orig_iter(self)
    yutils.FrozenDict.__iter__ = fd_iter
    _PATCHED['done'] = True


def host_fn(x=0):
    return x * 2


def make_parent():
    parent = common.std_context().create_child_context()
    parent['$fd'] = yutils.FrozenDict({'k': 1, 'j': (1, 2), 'z': 'zz'})
    parent['$tup'] = (1, 2, 3)
    parent['$hostSet'] = frozenset([1, 2])
    parent.register_function(host_fn, name='hostFn')
    return parent


_ENG = {}


def statements():
    if 'e' not in _ENG:
        eng = common.engine(cache=False)
        _ENG['e'] = eng
        _ENG['s'] = [eng(t) for t in POOL]
    return _ENG['s']


def snap_parent(parent):
    from vf.props import c09
    return c09.ctx_snapshot(parent)


def evaluate(stmt, doc, parent, hook=None):
    ctx = parent.create_child_context()
    ctx['$src'] = Source(n=50, hook=hook)
    try:
        return ('ok', common.snapshot(stmt.evaluate(
            data=DOCS[doc % len(DOCS)], context=ctx)))
    except Exception as e:   # noqa
        return ('exc', type(e).__name__)


_BASE = {}


def baseline(si, di):
    key = (si % len(POOL), di % len(DOCS))
    if key not in _BASE:
        _BASE[key] = evaluate(statements()[key[0]], key[1], make_parent())
    return _BASE[key]


def _make_fns(threads, parent):
    stmts = statements()

    def mk(work):
        def fn():
            out = []
            for si, di in work:
                out.append(evaluate(stmts[si % len(POOL)], di, parent,
                                    hook=sched.point))
            return out
        return fn
    return [mk(w) for w in threads]


def _judge(run, case, threads, results, parent, before):
    for ti, (work, r) in enumerate(zip(threads, results)):
        if r[0] != 'ok':
            run.violate('thread-died', case, 'thread %d: %r' % (ti, r[1]),
                        input_class='harness')
            return True
        for (si, di), got in zip(work, r[1]):
            exp = baseline(si, di)
            if got != exp:
                run.violate('result-differs-from-sequential', case,
                            'thread %d, %s on document %d: alone %r, '
                            'concurrently %r' % (ti, POOL[si % len(POOL)],
                                                 di % len(DOCS), exp, got),
                            input_class=POOL[si % len(POOL)])
                return True
    if snap_parent(parent) != before:
        run.violate('shared-context-changed', case,
                    'the shared parent context differs after the run',
                    input_class='parent')
        return True
    return False


def _run_schedule(run, case, chooser, count=True):
    install_points()
    threads = [[tuple(x) for x in w] for w in case['threads']]
    for w in threads:
        for si, di in w:
            baseline(si, di)
    parent = make_parent()
    before = snap_parent(parent)
    s = sched.Scheduler()
    try:
        results, trace, info = s.run(_make_fns(threads, parent), chooser)
    except sched.Stuck:
        run.inconclusive += 1
        return None
    full = dict(case, trace=trace)
    full.pop('choices', None)
    full['kind'] = 'scheduled'
    if count:
        run.case(full, info['preemptions'] >= 1,
                 fp=(case['threads'], trace),
                 cls=['scheduled', 'threads=%d' % len(threads)])
    _judge(run, full, threads, results, parent, before)
    return trace, info


def check_scheduled(run, case):
    _run_schedule(run, case, sched.replay_chooser(case.get('trace', [])))


def check_choices(run, case):
    _run_schedule(run, case, sched.index_chooser(case['choices']))


def _systematic(run, pairs, max_runs, max_pre):
    install_points()
    for (a, b) in pairs:
        threads = [[a], [b]]
        case = {'kind': 'scheduled', 'threads': [[list(a)], [list(b)]]}
        for w in threads:
            for si, di in w:
                baseline(si, di)
        state = {'bad': False, 'parent': None, 'before': None}

        def make():
            state['parent'] = make_parent()
            state['before'] = snap_parent(state['parent'])
            return _make_fns(threads, state['parent'])

        def on_run(results, trace, info):
            full = dict(case, trace=trace)
            run.case(full, info['preemptions'] >= 1,
                     fp=(case['threads'], trace), cls='enumerated-schedule')
            if not state['bad']:
                state['bad'] = _judge(run, full, threads, results,
                                      state['parent'], state['before'])
        try:
            n, complete = sched.explore(make, on_run, max_runs=max_runs,
                                        max_preemptions=max_pre)
        except sched.Stuck:
            run.inconclusive += 1
            continue
        run.classes['pairs_explored_to_preemption_bound' if complete
                    else 'pairs_cut_at_run_budget'] += 1


def _free(run, n_threads, per_thread, use_eval=False):
    stmts = statements()
    parent = make_parent()
    before = snap_parent(parent)
    work = [(si, di) for si in range(len(POOL)) for di in range(len(DOCS))]
    for si, di in work:
        baseline(si, di)
    bad = []
    barrier = threading.Barrier(n_threads)
    if use_eval:
        yaql._cached_engine = None
        yaql._cached_expressions = {}
        yaql._default_context = None
        texts = [t for t in POOL if '$fd' not in t and '$tup' not in t and
                 'hostFn' not in t and '$hostSet' not in t and
                 '$src' not in t]
        refs = {}
        for t in texts:
            for di in range(len(DOCS)):
                try:
                    refs[(t, di)] = ('ok', common.snapshot(
                        yaql.eval(t, DOCS[di])))
                except Exception as e:   # noqa
                    refs[(t, di)] = ('exc', type(e).__name__)
        yaql._cached_expressions = {}

    def worker(k):
        barrier.wait()
        for i in range(per_thread):
            if use_eval:
                t = texts[(i * (k + 2) + k) % len(texts)]
                di = (i + k) % len(DOCS)
                if i % 7 == 0:
                    yaql._cached_expressions.pop(t, None)
                try:
                    got = ('ok', common.snapshot(yaql.eval(t, DOCS[di])))
                except Exception as e:   # noqa
                    got = ('exc', type(e).__name__)
                exp = refs[(t, di)]
                label = t
            else:
                si, di = work[(i * (k + 3) + k) % len(work)]
                got = evaluate(stmts[si], di, parent)
                exp = baseline(si, di)
                label = POOL[si]
            if got != exp:
                bad.append((label, di, exp, got))
                return
    old = sys.getswitchinterval()
    sys.setswitchinterval(1e-6)
    try:
        ths = [threading.Thread(target=worker, args=(k,), daemon=True)
               for k in range(n_threads)]
        for t in ths:
            t.start()
        for t in ths:
            t.join(600)
    finally:
        sys.setswitchinterval(old)
    run.count(n_threads * per_thread, cls='free-running-eval' if use_eval
              else 'free-running-evaluations')
    case = {'kind': 'free', 'threads': n_threads, 'per_thread': per_thread,
            'use_eval': use_eval}
    if bad:
        label, di, exp, got = bad[0]
        run.violate('free-running-result-differs', case,
                    '%s on document %d: alone %r, concurrently %r' % (
                        label, di, exp, got), input_class=label)
    elif not use_eval and snap_parent(parent) != before:
        run.violate('shared-context-changed', case, 'free-running tier',
                    input_class='parent')


def check_free(run, case):
    _free(run, case['threads'], case['per_thread'], case.get('use_eval',
                                                            False))


REPLAY = {'scheduled': check_scheduled, 'choices': check_choices,
          'free': check_free}


@st.composite
def cases(draw):
    n = draw(st.integers(2, 4))
    pair = st.tuples(st.integers(0, len(POOL) - 1),
                     st.integers(0, len(DOCS) - 1)).map(list)
    threads = [draw(st.lists(pair, min_size=1, max_size=3)) for _ in range(n)]
    if draw(st.booleans()):
        # share a statement between two threads
        threads[1][0] = list(threads[0][0])
    return {'kind': 'choices', 'threads': threads,
            'choices': draw(st.lists(st.integers(0, 3), max_size=80))}


def _sys_shard(run, pairs, max_runs, max_pre):
    _systematic(run, pairs, max_runs, max_pre)


def _hyp_shard(run, n, shard):
    run.hyp('random-schedules', cases(), lambda c: check_choices(run, c), n,
            shard=shard)


def run(run):
    full = run.tier == 'thorough'
    statements()
    common.std_context()
    # systematic pairs: each statement against a partner chosen by the seed,
    # plus every pair of the shared-FrozenDict statements
    n = len(POOL)
    fd = [i for i, t in enumerate(POOL) if '$fd' in t]
    pairs = [((i, 0), ((i * 7 + run.seed) % n, 1)) for i in range(n)]
    pairs += [((i, 0), (j, 0)) for i in fd for j in fd]
    pairs += [((i, 0), (i, 0)) for i in range(0, n, 3)]
    if not full:
        pairs = pairs[run.seed % 2::2] + [((i, 0), (j, 0))
                                          for i in fd for j in fd]
    chunks = [pairs[i::16] for i in range(16)]
    run.shards(_sys_shard, [(c, 3000 if full else 400, 3 if full else 2)
                            for c in chunks if c], watchdog=600)
    k = 8
    run.shards(_hyp_shard, [((8000 if full else 400) // k, i)
                            for i in range(k)], watchdog=600)
    _free(run, 4, 3000 if full else 250)
    _free(run, 4, 2000 if full else 200, use_eval=True)

"""C18 - concurrent evaluations do not interfere.

Threads evaluate parsed statements of one engine in their own children of one
shared prepared context under a harness-owned scheduler (scheduling points:
function dispatch, instrumented source pulls, FrozenDict iteration), plus a
free-running tier; oracle: each result equals the one computed alone, the
shared context chain is unchanged.
"""
import itertools
import os
import sys
import threading

from hypothesis import strategies as st

import yaql
from vf import common, sched
from vf.common import Source
from yaql.language import runner as yrunner
from yaql.language import utils as yutils

RULE = ('cases are (assignment of (statement, document) pairs from a pool of '
        '63 statements touching every library module (three of them deeply '
        'nested) to 2-4 threads, '
        'schedule); systematic: pairs of single statements, all schedules '
        'with <=2 (thorough <=3) preemptions by stateless DFS; random: '
        'Hypothesis-drawn schedules; nested overlaps (A a points, B b '
        'points, A to its end, B) for every statement against itself and a '
        'partner; free-running threads at 1 us switch '
        'interval incl. yaql.eval; cold start: fresh library context '
        '(yaql.create_context() or assembled by hand without finalizer) '
        'and freshly parsed statement, thread A suspended at a line event '
        '(first execution of each line of the yaql package, per shared '
        'object that is "self" there), thread B runs one evaluation, A '
        'resumes; non-trivial = >=2 threads were inside an '
        'evaluation at the same time and the schedule switched between two '
        'scheduling points of one evaluation (cold start: B ran while A '
        'was suspended inside its evaluation); distinct = distinct '
        '(threads, trace)')
ASSUMPTIONS = [
    'scheduling points: entry of yaql.language.runner.call, every pull from '
    'an instrumented source, FrozenDict.__iter__ (all patched from the '
    'harness as module/class attributes); interleavings inside C-level '
    'calls are only reachable by the free-running tier, which is '
    'probabilistic',
    'the cold-start tier tries one preemption per run (A | B | rest of A) '
    'at line granularity (sys.settrace on yaql frames); quick samples 450 '
    'of the ~1200-2200 candidate points per statement, thorough takes all',
    'a worker that neither parks nor finishes within 10 s makes the case '
    'inconclusive (counted), never a violation',
]

POOL = [
    '1 + 2 * 3 - 4', '$.a + $.b', '10 / 3 + 10 mod 3', '-$.a > $.b or not true',
    "'abc'.toUpper() + str($.a)", "$.s.split(' ').select($.len())",
    "$.s.replace({a => 1, b => 2})", "'x'.join($.items.select(str($)))",
    "regex('(\\w)(\\d)?').searchAll($.s, $1.value)",
    "regex('a(?P<n>.)').search('xab ac', $n.value)",
    "$.s =~ 'a.*' and $.s !~ '^z'", "regex('b').replaceBy($.s, $.value.toUpper())",
    'datetime(2020, 1, 2, 3) + timespan(hours => $.a)',
    '(datetime(2020, 1, 2) - datetime(2019, 1, 2)).days',
    'datetime(100000, timespan(hours => 3)).utc.hour',
    '$.items.where($ > 1).select($ * 2)', '$.items.orderBy(-$).thenBy($)',
    '$.items.orderBy($ mod 2).thenByDescending($)',
    '$.items.groupBy($ mod 2, $, $.sum())', '$.items.distinct().len()',
    '$.items.memorize().select($ + 1).sum()', '$.items.zip($.items.reverse())',
    '$.items.aggregate($1 + $2, 0)', '$.items.accumulate($1 * $2)',
    '$.items.toDict($, $ * $)', '$.items.join($.items, $1 < $2, [$1, $2]).len()',
    '$.items.skip(1).take(2).toList()', '$.items.splitWhere($ mod 2 = 0)',
    '$.items.slice(2)', '$.items.indexOf(2) + $.items.lastIndexOf(2)',
    'let(x => $.a, y => $.b) -> $x * $y', 'def(f, $ * 2) -> f(f($.a))',
    'let(x => 1) -> let(x => $x + 1) -> $x', '[$.a, $.b].unpack(p, q) -> $p - $q',
    'with($.a) -> $1 + 1', '$.d.set(z, 1).keys().orderBy($)',
    '$.d + {n => [1]}', '$.d.mergeWith({k => [9]})', '$.d.items().len()',
    '$.d.k.len()', '$.items.toSet().union(set(7)).len()',
    '$fd.k', '$fd.keys().orderBy($)', 'set($fd).contains($fd)',
    '{$fd => 1}.get($fd)', '[$fd, $fd].distinct().len()',
    '$tup.select($ + $.len())' if False else '$tup.select($ + 1)',
    'hostFn($.a) + hostFn($.b)', '$tup.len() + $hostSet.len()',
    'switch($.a > 1 => big, true => small)', 'coalesce(null, $.a)',
    'selectCase($.a > 5, $.a > 0).switchCase(x, y, z)',
    '$.a?.len()' if False else '$.none?.len()', '$.items.any($ > 2) and $.items.all($ > 0)',
    'range(4).select($ * $.len())' if False else 'range(4).select($ * 2)',
    'generate(0, $ < 4, $ + 1).toList()', 'list($.items, range(2))',
    "characters(digits => true).len()", 'int("12") + float("1.5")',
    '$.items.max() - $.items.min()', 'isString($.s) and isList($.items)',
    '$src.take(3).select($ + 1)', '$src.where($ mod 2 = 0).take(2).sum()',
    # the two aggregator conventions of groupBy next to each other
    '$.items.groupBy($ mod 2, $, $.sum())',
    '$.items.groupBy($ mod 2, $, [$[0], $[1].sum()])',
    # persistent updates of collections the host keeps in the shared context
    '$hostPath.insert(0, root)', '$hostDefaults.delete(a).len()',
    '$hostDefaults.deleteAll([b]).keys().toList()',
    # a helper of the shared chain, called from several evaluations at once
    'probe($.a)', '[probe($.b), probe(10)]',
    # one host object reached through two yaqlized facades
    '$guest.registry.name', '$admin.registry.secret',
    '[$admin.registry.name, $guest.registry.name]',
    # remembered iterators read more than once
    'let(m => $src.take(5).memorize()) -> [$m.sum(), $m.len(), $m.toList()]',
    '[1, 2, 3].join($src.take(3).select($ + 0), true, [$1, $2]).len()',
    '$src.take(4).select($ * 2).defaultIfEmpty([0]).toList()',
    # a member of the document that input conversion turns into a lazy
    # sequence (a dictionary view): every evaluation gets its own
    '$.vals.sum()', '[$.vals.len(), $.vals.toList()]',
    # context-producing calls whose arguments are literals only, in front of
    # a part that reads the document
    'let(limit => 2) -> $.items.where($ > $limit)',
    'with(100, 7) -> $.items.select($ * $2)',
    'def(twice, 2) -> $.items.select($ * twice())',
    # deep expressions: alone the first needs about two thirds of the
    # interpreter's stack, the others about 40% (the harness's scheduling
    # hooks add a frame of their own to every call level, so a statement at
    # the very edge of the recursion limit fails under the scheduler for
    # that reason alone - a false alarm the thorough tier raised with 219
    # operands; the baseline is computed under the same hooks in a thread
    # of its own for the same reason); with company they must still get
    # their value
    ' + '.join(['$.a'] + ['1'] * 100), ' + '.join(['1'] * 60),
    # ... and one far beyond the stack: a recursion error alone, the same
    # with company (nothing near the edge, where a frame more or less
    # decides)
    ' + '.join(['$.a'] + ['1'] * 200),
    '[' * 40 + '$.b' + ']' * 40,
]
DOCS = [
    {'a': 3, 'b': 4, 's': 'ab a1 b2', 'items': [3, 1, 2, 2],
     'd': {'k': [1, 2], 'j': 5}, 'none': None,
     'vals': {'p': 1, 'q': 2, 'r': 4}.values()},
    {'a': -1, 'b': 0, 's': 'zzz', 'items': [5], 'd': {'k': []},
     'none': None, 'vals': {}.values()},
    {'a': 7, 'b': 7, 's': 'a9', 'items': [2, 4, 6, 1, 1],
     'd': {'k': [3], 'x': {'y': 1}}, 'none': None,
     'vals': {'p': 10, 'q': 20}.values()},
]

_PATCHED = {}


def install_points():
    if _PATCHED:
        return
    orig_call = yrunner.call

    def call(*a, **kw):
        sched.point()
        return orig_call(*a, **kw)
    yrunner.call = call
    orig_iter = yutils.FrozenDict.__iter__

    def fd_iter(self):
        sched.point()
        return orig_iter(self)
    yutils.FrozenDict.__iter__ = fd_iter
    _PATCHED['done'] = True


def host_fn(x=0):
    return x * 2


def bare_library():
    """the library assembled by hand, module by module, on a plain Context:
    no finalizer anywhere in the chain (hosts that do not want output
    conversion build their contexts like this)"""
    from yaql.language import contexts, conventions
    from yaql.standard_library import (
        boolean, branching, collections as coll, common as comm, date_time,
        math, queries, regex, strings, system, yaqlized)
    ctx = contexts.Context(convention=conventions.CamelCaseConvention())
    system.register_fallbacks(ctx)
    ctx = ctx.create_child_context()
    system.register(ctx)
    for m in (comm, boolean, strings, math):
        m.register(ctx)
    coll.register(ctx)
    queries.register(ctx)
    for m in (regex, branching, date_time):
        m.register(ctx)
    return yaqlized.register(ctx)


def _ic(text):
    """statement text as the class of a violation (long ones abridged)"""
    return text if len(text) <= 80 else '%s ... (%d characters)' % (
        text[:60], len(text))


class _Registry:
    def __init__(self):
        self.name = 'reg'
        self.secret = 's3'

    def __repr__(self):
        return '<registry>'


class _Facade:
    def __init__(self, registry):
        self.registry = registry

    def __repr__(self):
        return '<facade>'


def _facades():
    """one host object that is not yaqlized by the host, handed out by two
    yaqlized facades with different restrictions of their own"""
    from yaql import yaqlization
    reg = _Registry()
    admin, guest = _Facade(reg), _Facade(reg)
    yaqlization.yaqlize(admin, auto_yaqlize_result=True)
    yaqlization.yaqlize(guest, auto_yaqlize_result=True,
                        yaqlize_methods=False, blacklist=['secret'])
    return admin, guest


def make_parent(lib=None):
    parent = (lib or common.std_context()).create_child_context()
    parent['$admin'], parent['$guest'] = _facades()
    parent['$fd'] = yutils.FrozenDict({'k': 1, 'j': (1, 2), 'z': 'zz'})
    parent['$tup'] = (1, 2, 3)
    parent['$hostSet'] = frozenset([1, 2])
    parent.register_function(host_fn, name='hostFn')
    # mutable collections of the host's, set the ordinary way (context
    # variables are not converted)
    parent['$hostPath'] = ['usr', 'lib']
    parent['$hostDefaults'] = {'a': 1, 'b': 2}
    if lib is None:
        # a helper the host defined in yaql itself: def() hands back the
        # context that holds the function, and that is the context every
        # evaluation is a child of
        try:
            parent = common.engine()(
                'def(probe, [$1, hostFn($1), $1, hostFn($1 + 1)])').evaluate(
                    context=parent)
        except Exception:   # noqa
            pass
    return parent


_ENG = {}


def statements():
    if 'e' not in _ENG:
        eng = common.engine(cache=False)
        _ENG['e'] = eng
        _ENG['s'] = [eng(t) for t in POOL]
    return _ENG['s']


def snap_parent(parent):
    from vf.props import c09
    return c09.ctx_snapshot(parent)


def evaluate(stmt, doc, parent, hook=None, materialise=False):
    ctx = parent.create_child_context()
    ctx['$src'] = Source(n=50, hook=hook)
    try:
        res = stmt.evaluate(data=DOCS[doc % len(DOCS)], context=ctx)
        if materialise:
            # contexts without a finalizer hand out lazy results
            res = yutils.convert_output_data(
                res, lambda it: itertools.islice(it, 2000), stmt.engine)
        return ('ok', common.snapshot(res))
    except Exception as e:   # noqa
        return ('exc', type(e).__name__)


_BASE = {}


def baseline(si, di):
    """the statement evaluated alone - in a thread of its own and with the
    scheduling hooks installed, i.e. with the very stack budget its
    concurrent evaluations have (the deep statements need most of it)"""
    key = (si % len(POOL), di % len(DOCS))
    if key not in _BASE:
        import threading
        install_points()
        # (the recursion limit the concurrent runs have: Hypothesis raises
        # it while it runs a test)
        common.reset_process_state()
        box = []
        # (a statement parsed for this one evaluation: what the shared
        # statement objects remember from other documents is not in it)
        fresh = common.engine(cache=False)(POOL[key[0]])
        t = threading.Thread(target=lambda: box.append(evaluate(
            fresh, key[1], make_parent())))
        t.start()
        t.join()
        _BASE[key] = box[0]
    return _BASE[key]


def _make_fns(threads, parent):
    common.reset_process_state()
    stmts = statements()

    def mk(work):
        def fn():
            out = []
            for si, di in work:
                out.append(evaluate(stmts[si % len(POOL)], di, parent,
                                    hook=sched.point))
            return out
        return fn
    return [mk(w) for w in threads]


def _judge(run, case, threads, results, parent, before):
    for ti, (work, r) in enumerate(zip(threads, results)):
        if r[0] != 'ok':
            run.violate('thread-died', case, 'thread %d: %r' % (ti, r[1]),
                        input_class='harness')
            return True
        for (si, di), got in zip(work, r[1]):
            exp = baseline(si, di)
            if got != exp:
                run.violate('result-differs-from-sequential', case,
                            'thread %d, %s on document %d: alone %r, '
                            'concurrently %r' % (ti, _ic(POOL[si % len(POOL)]),
                                                 di % len(DOCS), exp, got),
                            input_class=_ic(POOL[si % len(POOL)]))
                return True
    if snap_parent(parent) != before:
        run.violate('shared-context-changed', case,
                    'the shared parent context differs after the run',
                    input_class='parent')
        return True
    return False


def _run_schedule(run, case, chooser, count=True):
    install_points()
    threads = [[tuple(x) for x in w] for w in case['threads']]
    for w in threads:
        for si, di in w:
            baseline(si, di)
    parent = make_parent()
    before = snap_parent(parent)
    s = sched.Scheduler()
    try:
        results, trace, info = s.run(_make_fns(threads, parent), chooser)
    except sched.Stuck:
        run.inconclusive += 1
        return None
    full = dict(case, trace=trace)
    full.pop('choices', None)
    full['kind'] = 'scheduled'
    if count:
        run.case(full, info['preemptions'] >= 1,
                 fp=(case['threads'], trace),
                 cls=['scheduled', 'threads=%d' % len(threads)])
    _judge(run, full, threads, results, parent, before)
    return trace, info


def check_scheduled(run, case):
    _run_schedule(run, case, sched.replay_chooser(case.get('trace', [])))


def check_choices(run, case):
    _run_schedule(run, case, sched.index_chooser(case['choices']))


def _systematic(run, pairs, max_runs, max_pre):
    install_points()
    for (a, b) in pairs:
        threads = [[a], [b]]
        case = {'kind': 'scheduled', 'threads': [[list(a)], [list(b)]]}
        for w in threads:
            for si, di in w:
                baseline(si, di)
        state = {'bad': False, 'parent': None, 'before': None}

        def make():
            state['parent'] = make_parent()
            state['before'] = snap_parent(state['parent'])
            return _make_fns(threads, state['parent'])

        def on_run(results, trace, info):
            full = dict(case, trace=trace)
            run.case(full, info['preemptions'] >= 1,
                     fp=(case['threads'], trace), cls='enumerated-schedule')
            if not state['bad']:
                state['bad'] = _judge(run, full, threads, results,
                                      state['parent'], state['before'])
        try:
            n, complete = sched.explore(make, on_run, max_runs=max_runs,
                                        max_preemptions=max_pre)
        except sched.Stuck:
            run.inconclusive += 1
            continue
        run.classes['pairs_explored_to_preemption_bound' if complete
                    else 'pairs_cut_at_run_budget'] += 1


# statements whose value is known without evaluating them first: the first
# evaluations ever made in a process run concurrently
_STAMPS = ['%04d-%02d-%02d' % (1990 + i // 28, 1 + i % 12, 1 + i % 28)
           for i in range(420)]
COLD_FREE = [
    ('def(f4, [$1, $2, $3, $4]) -> f4(1, 2, 3, 4)', None, [1, 2, 3, 4]),
    ('def(f5, [$5, $4, $3, $2, $1]) -> [f5(1, 2, 3, 4, 5), f5(6, 7, 8, 9, 0)]',
     None, [[5, 4, 3, 2, 1], [0, 9, 8, 7, 6]]),
    ('[1, 2].aggregate($1 + $2) + [[1, 2, 3]].select(let(a => $[0], b => '
     '$[1], c => $[2]) -> $a + $b + $c).first()', None, 9),
    ('$.select(datetime($, "%Y-%m-%d").year).sum()', _STAMPS,
     sum(1990 + i // 28 for i in range(420))),
    ('$.select(datetime($, "%Y-%m-%d").day).sum()', _STAMPS[::-1],
     sum(1 + i % 28 for i in range(420))),
    ("$.select(datetime($, '%Y-%m-%d').format('%d')).distinct().len()",
     _STAMPS[100:], 28),
]


def _cold_free_shard(run, which, n_threads, rounds):
    """free-running threads in a process in which nothing has been
    evaluated yet (the shard process is forked before any evaluation): no
    warm-up initialises lazily built tables for them"""
    import yaql as _yaql
    texts = [COLD_FREE[i % len(COLD_FREE)] for i in which]
    eng = common.engine(cache=False)
    stmts = [(eng(t), d, e) for t, d, e in texts]
    ctx = _yaql.create_context()
    out = []
    barrier = threading.Barrier(n_threads)
    old = sys.getswitchinterval()
    sys.setswitchinterval(1e-6)

    def worker(k):
        barrier.wait()
        for r in range(rounds):
            for j in range(len(stmts)):
                st_, d, e = stmts[(j + k) % len(stmts)]
                try:
                    got = ('ok', st_.evaluate(
                        data=d, context=ctx.create_child_context()))
                except Exception as ex:   # noqa
                    got = ('exc', type(ex).__name__)
                if got != ('ok', e):
                    out.append((str(st_), got, e))
    try:
        ts = [threading.Thread(target=worker, args=(k,))
              for k in range(n_threads)]
        for t in ts:
            t.start()
        for t in ts:
            t.join()
    finally:
        sys.setswitchinterval(old)
    # ... and once more, alone (a table spoilt by a race stays spoilt)
    for st_, d, e in stmts:
        try:
            got = ('ok', st_.evaluate(data=d,
                                      context=ctx.create_child_context()))
        except Exception as ex:   # noqa
            got = ('exc', type(ex).__name__)
        if got != ('ok', e):
            out.append((str(st_), got, e))
    case = {'kind': 'cold-free', 'which': list(which), 'threads': n_threads,
            'rounds': rounds}
    run.case(case, True, cls=['cold-free-running'])
    run.count(n_threads * rounds * len(stmts), cls='cold-free-evaluations')
    if out:
        text, got, e = out[0]
        run.violate('cold-free-running-result-differs', case,
                    '%s among the first evaluations of a process, %d '
                    'threads: %r, expected %r' % (_ic(text), n_threads, got,
                                                  e), input_class=_ic(text))


def _cold_fork_shard(run, n_forks, n_threads):
    """many first moments: this (never evaluating) process forks n_forks
    children; in each, n_threads threads make the process's first
    evaluations at once.  A race on a table that is filled on first use
    gets one chance per process - here it gets hundreds."""
    import json
    import yaql as _yaql
    eng = common.engine(cache=False)
    stmts = [(eng(t), e) for t, d, e in COLD_FREE[:3]]
    ctx = _yaql.create_context()
    bad = None
    for i in range(n_forks):
        r, w = os.pipe()
        pid = os.fork()
        if pid == 0:
            out = []
            try:
                sys.setswitchinterval(1e-6)
                barrier = threading.Barrier(n_threads)

                def worker(k):
                    st_, e = stmts[(i + k) % len(stmts)] if i % 4 == 3 \
                        else stmts[i % len(stmts)]
                    barrier.wait()
                    try:
                        got = ('ok', st_.evaluate(
                            context=ctx.create_child_context()))
                    except Exception as ex:   # noqa
                        got = ('exc', type(ex).__name__)
                    if got != ('ok', e):
                        out.append([str(st_), repr(got), repr(e)])
                ts = [threading.Thread(target=worker, args=(k,))
                      for k in range(n_threads)]
                for t in ts:
                    t.start()
                for t in ts:
                    t.join()
                os.write(w, json.dumps(out[:1]).encode())
            finally:
                os._exit(0)
        os.close(w)
        data = b''
        while True:
            chunk = os.read(r, 65536)
            if not chunk:
                break
            data += chunk
        os.close(r)
        os.waitpid(pid, 0)
        got = json.loads(data.decode() or '[]')
        if got and bad is None:
            bad = got[0]
    case = {'kind': 'cold-fork', 'forks': n_forks, 'threads': n_threads}
    run.case(case, True, cls=['cold-forked-first-evaluations'])
    run.count(n_forks * n_threads, cls='cold-fork-evaluations')
    if bad:
        run.violate('cold-free-running-result-differs', case,
                    '%s as one of the %d simultaneous first evaluations of a '
                    'process: %s, expected %s' % (_ic(bad[0]), n_threads,
                                                  bad[1], bad[2]),
                    input_class=_ic(bad[0]))


def check_cold_fork(run, case):
    _cold_fork_shard(run, case['forks'], case['threads'])


def check_cold_free(run, case):
    # (replayed in a process that may be warm: the saved case documents the
    # failure; a cold process is what the shards provide)
    _cold_free_shard(run, case['which'], case['threads'], case['rounds'])


def _free(run, n_threads, per_thread, use_eval=False):
    stmts = statements()
    parent = make_parent()
    before = snap_parent(parent)
    work = [(si, di) for si in range(len(POOL)) for di in range(len(DOCS))]
    for si, di in work:
        baseline(si, di)
    bad = []
    barrier = threading.Barrier(n_threads)
    if use_eval:
        yaql._cached_engine = None
        yaql._cached_expressions = {}
        yaql._default_context = None
        texts = [t for t in POOL if '$fd' not in t and '$tup' not in t and
                 'hostFn' not in t and '$hostSet' not in t and
                 '$src' not in t]
        refs = {}
        for t in texts:
            for di in range(len(DOCS)):
                try:
                    refs[(t, di)] = ('ok', common.snapshot(
                        yaql.eval(t, DOCS[di])))
                except Exception as e:   # noqa
                    refs[(t, di)] = ('exc', type(e).__name__)
        yaql._cached_expressions = {}

    def worker(k):
        barrier.wait()
        for i in range(per_thread):
            if use_eval:
                t = texts[(i * (k + 2) + k) % len(texts)]
                di = (i + k) % len(DOCS)
                if i % 7 == 0:
                    yaql._cached_expressions.pop(t, None)
                try:
                    got = ('ok', common.snapshot(yaql.eval(t, DOCS[di])))
                except Exception as e:   # noqa
                    got = ('exc', type(e).__name__)
                exp = refs[(t, di)]
                label = t
            else:
                si, di = work[(i * (k + 3) + k) % len(work)]
                got = evaluate(stmts[si], di, parent)
                exp = baseline(si, di)
                label = POOL[si]
            if got != exp:
                bad.append((label, di, exp, got))
                return
    old = sys.getswitchinterval()
    sys.setswitchinterval(1e-6)
    try:
        ths = [threading.Thread(target=worker, args=(k,), daemon=True)
               for k in range(n_threads)]
        for t in ths:
            t.start()
        for t in ths:
            t.join(600)
    finally:
        sys.setswitchinterval(old)
    run.count(n_threads * per_thread, cls='free-running-eval' if use_eval
              else 'free-running-evaluations')
    case = {'kind': 'free', 'threads': n_threads, 'per_thread': per_thread,
            'use_eval': use_eval}
    if bad:
        label, di, exp, got = bad[0]
        run.violate('free-running-result-differs', case,
                    '%s on document %d: alone %r, concurrently %r' % (
                        _ic(label), di, exp, got), input_class=_ic(label))
    elif not use_eval and snap_parent(parent) != before:
        run.violate('shared-context-changed', case, 'free-running tier',
                    input_class='parent')


# --------------------------------------------------------------------------
# cold start: nothing has been evaluated under the shared context (nor with
# the parsed statement) before the threads start.  Thread A runs under a line
# tracer; at a chosen line event it is suspended, thread B runs one whole
# evaluation, then A resumes: "A up to any line | B | rest of A".  Targets
# are the first execution of every line of the yaql package, separately for
# every object shared by the threads (function definitions, parameter
# definitions, contexts, expression nodes) that the line's frame has as
# 'self' - which is where lazily initialised per-object state would live.

_YAQL_DIR = os.path.dirname(os.path.abspath(yaql.__file__)) + os.sep


def _fresh_world(variant):
    lib = bare_library() if variant == 'bare' else yaql.create_context()
    return make_parent(lib)


def _shared_ids(parent, stmt):
    """id -> stable label of the objects both threads work with"""
    out = {}
    p, layer = parent, 0
    while p is not None:
        out[id(p)] = 'ctx%d' % layer
        funcs = getattr(p, '_functions', {})
        for name in sorted(funcs):
            for fd in funcs[name]:
                out[id(fd)] = 'fd'
                for pd in fd.parameters.values():
                    out[id(pd)] = 'pd'
                    out[id(pd.value_type)] = 'vt'
        p = p.parent
        layer += 1

    def walk(node):
        out[id(node)] = 'node'
        for a in getattr(node, 'args', ()) or ():
            if hasattr(a, 'evaluate') or hasattr(a, 'args'):
                walk(a)
    walk(stmt)
    out[id(stmt.engine)] = 'engine'
    return out


def _trace_thread(on_line):
    state = {'off': False}

    def local(frame, event, arg):
        if state['off']:
            return None
        if event == 'line':
            on_line(frame)
        return local

    def tracer(frame, event, arg):
        if state['off'] or event != 'call':
            return None
        if frame.f_code.co_filename.startswith(_YAQL_DIR):
            return local
        return None
    return tracer, state


def _cold_targets(si, di, variant):
    """line-event indices of thread A at which to try a preemption"""
    parent = _fresh_world(variant)
    stmt = statements_engine()(POOL[si % len(POOL)])
    shared = _shared_ids(parent, stmt)
    seen = set()
    targets = []
    n = [0]

    def on_line(frame):
        n[0] += 1
        code = frame.f_code
        key = (code.co_filename, frame.f_lineno)
        if key not in seen:
            seen.add(key)
            targets.append((n[0], os.path.relpath(
                code.co_filename, _YAQL_DIR), frame.f_lineno))
        slf = frame.f_locals.get('self')
        if slf is not None and id(slf) in shared:
            key2 = key + (id(slf),)
            if key2 not in seen:
                seen.add(key2)
                if targets[-1][0] != n[0]:
                    targets.append((n[0], os.path.relpath(
                        code.co_filename, _YAQL_DIR), frame.f_lineno))
    tracer, st_ = _trace_thread(on_line)
    sys.settrace(tracer)
    try:
        evaluate(stmt, di, parent, materialise=variant == 'bare')
    finally:
        sys.settrace(None)
        st_['off'] = True
    return targets, n[0]


def statements_engine():
    statements()
    return _ENG['e']


_COLD_BASE = {}


def _cold_baseline(si, di, variant):
    key = (si % len(POOL), di % len(DOCS), variant)
    if key not in _COLD_BASE:
        stmt = statements_engine()(POOL[key[0]])
        _COLD_BASE[key] = evaluate(stmt, key[1], _fresh_world(variant),
                                   materialise=variant == 'bare')
    return _COLD_BASE[key]


def check_cold(run, case):
    variant = case['variant']
    (sa, da), (sb, db) = case['a'], case['b']
    at = case['at']
    exp_a = _cold_baseline(sa, da, variant)
    exp_b = _cold_baseline(sb, db, variant)
    parent = _fresh_world(variant)
    before = snap_parent(parent)
    eng = statements_engine()
    stmt_a = eng(POOL[sa % len(POOL)])
    stmt_b = stmt_a if case.get('same_statement') else eng(
        POOL[sb % len(POOL)])
    mat = variant == 'bare'
    b_go, b_done = threading.Event(), threading.Event()
    res = {}
    n = [0]
    fired = [False]

    def on_line(frame):
        n[0] += 1
        if n[0] == at and not fired[0]:
            fired[0] = True
            st_['off'] = True
            b_go.set()
            if not b_done.wait(3):
                # B waits for something A holds: resume A, judge the
                # outcomes all the same
                fired[0] = 'blocked'

    tracer, st_ = _trace_thread(on_line)

    def thread_a():
        sys.settrace(tracer)
        try:
            res['a'] = evaluate(stmt_a, da, parent, materialise=mat)
        finally:
            sys.settrace(None)
            st_['off'] = True
            b_go.set()

    def thread_b():
        b_go.wait(60)
        try:
            res['b'] = evaluate(stmt_b, db, parent, materialise=mat)
        finally:
            b_done.set()
    ta = threading.Thread(target=thread_a, daemon=True)
    tb = threading.Thread(target=thread_b, daemon=True)
    ta.start()
    tb.start()
    ta.join(90)
    tb.join(90)
    if 'a' not in res or 'b' not in res:
        run.inconclusive += 1
        return
    run.case(case, fired[0] is True, fp=(variant, tuple(case['a']), tuple(case['b']),
                                 at, bool(case.get('same_statement'))),
             cls=['cold-start', 'cold-' + variant] + (
                 ['preempted-inside-evaluation'] if fired[0] is True else
                 ['b-blocked-until-a-resumed'] if fired[0] else []))
    where = '%s:%s' % (case.get('file', '?'), case.get('line', '?'))
    for who, got, exp, si in (('A (suspended at %s)' % where, res['a'],
                               exp_a, sa),
                              ('B (run while A was suspended at %s)' % where,
                               res['b'], exp_b, sb)):
        if got != exp:
            run.violate('cold-result-differs-from-sequential', case,
                        '%s context, thread %s, %s: alone %r, concurrently '
                        '%r' % (variant, who, POOL[si % len(POOL)], exp, got),
                        input_class='%s/%s' % (variant, _ic(POOL[si % len(POOL)])))
            return
    if snap_parent(parent) != before:
        run.violate('shared-context-changed', case,
                    '%s context: the shared context chain differs after two '
                    'evaluations of %s' % (variant, POOL[sa % len(POOL)]),
                    input_class='cold-' + variant)


def _cold_shard(run, jobs, budget):
    for si, di, sb, variant in jobs:
        targets, total = _cold_targets(si, di, variant)
        if len(targets) > budget:
            step = len(targets) / float(budget)
            off = (run.seed % 7) / 7.0
            picked = sorted({int((i + off) * step) for i in range(budget)})
            targets = [targets[i] for i in picked if i < len(targets)]
        run.classes['cold-line-events-per-evaluation~%d00' % (total // 100)] += 1
        for k, (at, fn, line) in enumerate(targets):
            same = sb == si
            check_cold(run, {'kind': 'cold', 'variant': variant,
                             'a': [si, di], 'b': [sb, di if same else
                                                  (di + 1) % len(DOCS)],
                             'same_statement': same and k % 2 == 0,
                             'at': at, 'file': fn, 'line': line})
        # and one evaluation with no second thread inside it at all
        check_cold(run, {'kind': 'cold', 'variant': variant, 'a': [si, di],
                         'b': [si, di], 'same_statement': True, 'at': 0})


def check_free(run, case):
    _free(run, case['threads'], case['per_thread'], case.get('use_eval',
                                                            False))


REPLAY = {'scheduled': check_scheduled, 'choices': check_choices,
          'free': check_free, 'cold': check_cold,
          'cold-free': check_cold_free, 'cold-fork': check_cold_fork}


@st.composite
def cases(draw):
    n = draw(st.integers(2, 4))
    pair = st.tuples(st.integers(0, len(POOL) - 1),
                     st.integers(0, len(DOCS) - 1)).map(list)
    threads = [draw(st.lists(pair, min_size=1, max_size=3)) for _ in range(n)]
    if draw(st.booleans()):
        # share a statement between two threads
        threads[1][0] = list(threads[0][0])
    return {'kind': 'choices', 'threads': threads,
            'choices': draw(st.lists(st.integers(0, 3), max_size=80))}


def _sys_shard(run, pairs, max_runs, max_pre):
    _systematic(run, pairs, max_runs, max_pre)


OVERLAP_A = [1, 2, 3, 5, 8, 13, 21, 40, 80]
OVERLAP_B = [1, 2, 3, 5, 9]
OVERLAP_B_LONG = [1, 2, 3, 5, 9, 12, 16, 20, 25, 30, 36, 44]


def _overlap_shard(run, pairs):
    """nested overlaps: A runs a scheduling points, B runs b points, A runs
    to its end, then B - the shape that exposes state saved at the start of
    an evaluation and restored at its end (process-wide settings, shared
    scratch objects) when another evaluation is in between"""
    install_points()
    for x, y in pairs:
        text_y = POOL[y[0] % len(POOL)]
        deep_b = 'memorize' in text_y or 'defaultIfEmpty' in text_y or \
            '.join($src' in text_y
        for a in OVERLAP_A:
            for b in (OVERLAP_B_LONG if deep_b else OVERLAP_B):
                check_scheduled(run, {
                    'kind': 'scheduled',
                    'threads': [[list(x)], [list(y)]],
                    'trace': [0] * a + [1] * b + [0] * 4000})


def _hyp_shard(run, n, shard):
    run.hyp('random-schedules', cases(), lambda c: check_choices(run, c), n,
            shard=shard)


def run(run):
    full = run.tier == 'thorough'
    common.reset_process_state()      # remembers the interpreter's settings
    statements()
    common.std_context()
    # systematic pairs: each statement against a partner chosen by the seed,
    # plus every pair of the shared-FrozenDict statements
    n = len(POOL)
    fd = [i for i, t in enumerate(POOL) if '$fd' in t]
    pairs = [((i, 0), ((i * 7 + run.seed) % n, 1)) for i in range(n)]
    pairs += [((i, 0), (j, 0)) for i in fd for j in fd]
    # the statements that reach one host object through different facades,
    # in both orders
    groups = [[i for i, t in enumerate(POOL) if mark(t)] for mark in (
        lambda t: '.registry.' in t,
        lambda t: ', $, $.sum())' in t or '$[1].sum()' in t,
        lambda t: '$hostPath' in t or '$hostDefaults' in t,
        lambda t: 'probe(' in t,
        # sorts with different orderings that overlap
        lambda t: '$.items.orderBy' in t)]
    fac_pairs = [((i, 0), (j, 2)) for g in groups for i in g for j in g]
    pairs += [((i, 0), (i, 0)) for i in range(0, n, 3)]
    if not full:
        pairs = pairs[run.seed % 2::2] + [((i, 0), (j, 0))
                                          for i in fd for j in fd]
    pairs += fac_pairs
    chunks = [pairs[i::16] for i in range(16)]
    run.shards(_sys_shard, [(c, 3000 if full else 250, 3 if full else 2)
                            for c in chunks if c], watchdog=600)
    ov = [((i, (i + run.seed) % len(DOCS)), (i, (i + 1) % len(DOCS)))
          for i in range(n)]
    ov += [((i, 0), ((i * 5 + 1 + run.seed) % n, 1))
           for i in range(0, n, 1 if full else 3)]
    # a short statement that starts first and ends while a statement that
    # remembers an iterator is between two passes over it
    # statements that belong together, as nested overlaps too
    ov += fac_pairs
    mem = [i for i, t in enumerate(POOL) if 'memorize' in t or
           'defaultIfEmpty' in t or '.join($src' in t]
    ov += [((s_, 0), (i, 1)) for i in mem for s_ in (0, 3)]

    run.shards(_overlap_shard, [(ov[i::16],) for i in range(16)],
               watchdog=900)
    k = 8
    run.shards(_hyp_shard, [((8000 if full else 400) // k, i)
                            for i in range(k)], watchdog=600)
    # cold start, line-granular single preemption
    sel = list(range(n)) if full else list(range(run.seed % 2, n, 2))
    jobs = []
    for i in sel:
        variants = ('std', 'bare') if full else (
            ('bare',) if (i // 2 + run.seed) % 3 == 0 else ('std',))
        for v in variants:
            partner = i if (i + run.seed) % 3 else (i * 7 + 3) % n
            jobs.append((i, (i + run.seed) % len(DOCS), partner, v))
    run.shards(_cold_shard, [(jobs[i::16], 100000 if full else 300)
                             for i in range(16) if jobs[i::16]],
               watchdog=3000)
    jobs = []
    for i in range(96 if full else 32):
        which = [i % 3, 3 + i % 3] if i % 2 else [i % 3, (i + 1) % 3,
                                                  (i + 2) % 3]
        jobs.append((which, 3 + i % 3, 6 if full else 3))
    run.shards(_cold_free_shard, jobs, watchdog=600)
    run.shards(_cold_fork_shard, [(400 if full else 100, 4 + i % 5)
                                  for i in range(16)], watchdog=600)
    _free(run, 4, 3000 if full else 250)
    _free(run, 4, 2000 if full else 200, use_eval=True)

"""C20 - date/time values denote instants consistently.

Hypothesis-generated datetimes / offsets / timespans / timestamps; oracle:
Python's aware-datetime arithmetic on exact integer microseconds.
"""
import datetime as dtm
import math

from dateutil import tz
from hypothesis import strategies as st

from vf import common

RULE = ('cases are (law, datetime fields, offset minutes, timespan '
        'components, timestamp, host tz kind) drawn by Hypothesis; laws: '
        'timestamp round trips, utc, add/subtract inverses, instant '
        'equality/ordering across offsets, unit properties, naive-as-UTC '
        'twins; non-trivial = non-zero offset, or naive host datetime, or '
        'negative timespan, or instant before 1970 / after 2038; distinct = '
        'distinct case')
ASSUMPTIONS = [
    'host datetimes in a zone with a varying offset (hand-written tzinfo, '
    'one hour ahead April-September) are judged on (d + t) - t = d and '
    '(d + t) - d = t only; the instant-based clauses use fixed offsets',
    'the checks run with the process time zone set to UTC+5:30 (TZ '
    'variable, tzset): the property may not depend on the local zone',
    'Python aware-datetime arithmetic (exact integer microseconds since the '
    'epoch) is the model of instants',
    'timestamp laws use a tolerance of 1 microsecond plus 2 ulp of the float '
    'timestamp; unit laws a relative tolerance of 1e-12',
    'datetimes are constructed inside years 300..9700 so that +- offset and '
    '+- timespan stay in range (constructed, not filtered)',
]

EPOCH = dtm.datetime(1970, 1, 1, tzinfo=dtm.timezone.utc)
US = dtm.timedelta(microseconds=1)
ENGINE_OPTS = {'yaql.convertOutputData': False}


def _eng():
    return common.engine(ENGINE_OPTS)


def ev(text, **binds):
    ctx = common.child()
    for k, v in binds.items():
        ctx['$' + k] = v
    try:
        return ('ok', _eng()(text).evaluate(context=ctx))
    except Exception as e:    # noqa
        return ('exc', e)


def to_us(d):
    if d.tzinfo is None:
        d = d.replace(tzinfo=dtm.timezone.utc)
    return (d - EPOCH) // US


def off_min(d):
    o = d.utcoffset()
    return 0 if o is None else int(o.total_seconds() // 60)


class DstZone(dtm.tzinfo):
    """a host zone whose offset varies with the date (one hour ahead from
    April to September), the way zones with daylight saving time do; no zone
    database needed"""

    def __init__(self, minutes):
        self.minutes = minutes

    def _summer(self, d):
        return d is not None and 4 <= d.month <= 9

    def utcoffset(self, d):
        return dtm.timedelta(minutes=self.minutes + (
            60 if self._summer(d) else 0))

    def dst(self, d):
        return dtm.timedelta(minutes=60 if self._summer(d) else 0)

    def tzname(self, d):
        return 'DST%+d' % self.minutes

    def __repr__(self):
        return 'DstZone(%d)' % self.minutes


def mk_tz(kind, minutes):
    if kind == 'naive':
        return None
    if kind == 'dst':
        return DstZone(max(min(minutes, 1300), -1300))
    if kind == 'tzutc' and minutes == 0:
        return tz.tzutc()
    if kind == 'timezone':
        return dtm.timezone(dtm.timedelta(minutes=minutes))
    return tz.tzoffset(None, minutes * 60)


def mk_dt(f, kind='tzoffset'):
    """f = [y, mo, d, h, mi, s, us, offset_minutes]"""
    return dtm.datetime(*f[:7], tzinfo=mk_tz(kind, f[7]))


def dt_expr(f):
    return ('datetime(%d, %d, %d, %d, %d, %d, %d, timespan(minutes => %s))'
            % (f[0], f[1], f[2], f[3], f[4], f[5], f[6],
               common.lit(f[7])))


def ts_expr(t):
    names = ['days', 'hours', 'minutes', 'seconds', 'milliseconds',
             'microseconds']
    return 'timespan(%s)' % ', '.join(
        '%s => %s' % (n, common.lit(v)) for n, v in zip(names, t) if v)


def mk_ts(t):
    return dtm.timedelta(days=t[0], hours=t[1], minutes=t[2], seconds=t[3],
                         milliseconds=t[4], microseconds=t[5])


def ulp(x):
    return math.ulp(float(x))


# --------------------------------------------------------------------------

def _nontrivial(case):
    f = case.get('d')
    nt = False
    if f is not None:
        nt = f[7] != 0 or f[0] < 1970 or f[0] > 2038
    if case.get('tzkind') == 'naive':
        nt = True
    t = case.get('t')
    if t is not None and any(v < 0 for v in t):
        nt = True
    s = case.get('s')
    if s is not None and (common.dec(s) < 0 or common.dec(s) > 2 ** 31):
        nt = True
    if case.get('o'):
        nt = True
    return nt


def _cls(case):
    out = [case['law']]
    if case.get('tzkind'):
        out.append('tz=' + case['tzkind'])
    if case.get('spelling'):
        out.append('spelling=' + case['spelling'])
    return out


def _fail(run, case, clause, detail, exc=None):
    f = case.get('d')
    ic = case['law']
    if case.get('tzkind') == 'naive':
        ic += '/naive'
    elif (f is not None and f[7] != 0) or case.get('o'):
        ic += '/offset!=0'
    else:
        ic += '/offset=0'
    run.violate(clause, case, detail, exc=exc, input_class=ic)


def _get(run, case, clause, text, **binds):
    o = ev(text, **binds)
    if o[0] != 'ok':
        _fail(run, case, clause + '-raises',
              '%s raised %s: %s' % (text, type(o[1]).__name__, o[1]),
              exc=o[1])
        return None
    return o[1]


def _d(case):
    """yaql-side spelling of the case's datetime: expression or host object."""
    f = case['d']
    if case.get('spelling') == 'host':
        return '$d', {'d': mk_dt(f, case.get('tzkind', 'tzoffset'))}
    return dt_expr(f), {}


def _set_zone():
    """a zone-less host datetime is UTC whatever the zone of the hosting
    process: run with a local zone far from UTC (no tzdata needed)"""
    import os
    import time
    if os.environ.get('TZ') != 'VRF-5:30':
        os.environ['TZ'] = 'VRF-5:30'
        time.tzset()


def check_law(run, case):
    _set_zone()
    law = case['law']
    run.case(case, _nontrivial(case), cls=_cls(case))
    LAWS[law](run, case)


def law_timestamp_of_built(run, case):
    """datetime(s, o).timestamp = s"""
    s = common.dec(case['s'])
    o = case['o']
    text = 'datetime($s, timespan(minutes => $o)).timestamp'
    got = _get(run, case, 'timestamp-of-built', text, s=s, o=o)
    if got is None:
        return
    if not isinstance(got, (int, float)) or \
            abs(got - s) > 1e-6 + 2 * ulp(s):
        _fail(run, case, 'timestamp-of-built-wrong',
              'datetime(%r, %d min).timestamp = %r' % (s, o, got))
        return
    # the same instant whatever way the offset is given (or left out: UTC)
    alt = _get(run, case, 'timestamp-of-built',
               '[datetime($s).timestamp, datetime($s).offset.microseconds, '
               'datetime($s, offset => timespan(minutes => $o)).timestamp, '
               'datetime($s, offset => timespan(minutes => $o)) = '
               'datetime($s, timespan(minutes => $o)), '
               'datetime(timestamp => $s).timestamp]', s=s, o=o)
    if alt is None:
        return
    tol = 1e-6 + 2 * ulp(s)
    if not all(isinstance(alt[i], (int, float)) and abs(alt[i] - s) <= tol
               for i in (0, 2, 4)) or alt[1] != 0 or alt[3] is not True:
        _fail(run, case, 'timestamp-of-built-wrong',
              '[datetime(s).timestamp, datetime(s).offset.us, datetime(s, '
              'offset => o).timestamp, datetime(s, offset => o) = '
              'datetime(s, o), datetime(timestamp => s).timestamp] with '
              's=%r, o=%d min: %r' % (s, o, list(alt)))
        return
    d = _get(run, case, 'built-from-timestamp',
             'datetime($s, timespan(minutes => $o))', s=s, o=o)
    if d is None:
        return
    if off_min(d) != o or abs(to_us(d) - round(s * 10 ** 6)) > 1 + \
            2 * ulp(s) * 10 ** 6:
        _fail(run, case, 'built-from-timestamp-wrong',
              'datetime(%r, %d min) = %r (instant %d us, offset %d min)' % (
                  s, o, d, to_us(d), off_min(d)))


def law_rebuild_from_timestamp(run, case):
    """datetime(d.timestamp, d.offset) = d up to float rounding"""
    dx, binds = _d(case)
    model = mk_dt(case['d'], 'tzoffset' if case.get('tzkind') != 'naive'
                  else 'naive')
    text = 'let(d => %s) -> datetime($d.timestamp, $d.offset)' % dx
    got = _get(run, case, 'rebuild', text, **binds)
    if got is None:
        return
    tol = 1 + 2 * ulp(to_us(model) / 1e6) * 10 ** 6
    if not isinstance(got, dtm.datetime) or got.tzinfo is None or \
            abs(to_us(got) - to_us(model)) > tol or \
            off_min(got) != off_min(model):
        _fail(run, case, 'rebuild-wrong',
              '%s -> %r; expected instant %d us at offset %d min, got '
              'instant %s at offset %s' % (
                  text, got, to_us(model), off_min(model),
                  to_us(got) if isinstance(got, dtm.datetime) else '?',
                  off_min(got) if isinstance(got, dtm.datetime) else '?'))


def law_timestamp_value(run, case):
    """d.timestamp is the number of seconds of d's instant since the epoch"""
    dx, binds = _d(case)
    model = mk_dt(case['d'], 'naive' if case.get('tzkind') == 'naive'
                  else 'tzoffset')
    got = _get(run, case, 'timestamp', '%s.timestamp' % dx, **binds)
    if got is None:
        return
    exp = to_us(model) / 1e6
    if not isinstance(got, (int, float)) or abs(got - exp) > 2 * ulp(exp):
        _fail(run, case, 'timestamp-wrong',
              '%s.timestamp = %r, instant is %r s' % (dx, got, exp))


def law_utc(run, case):
    dx, binds = _d(case)
    model = mk_dt(case['d'], 'naive' if case.get('tzkind') == 'naive'
                  else 'tzoffset')
    try:
        model.astimezone(dtm.timezone.utc)
    except OverflowError:
        # the UTC reading of this instant lies outside the years 1..9999:
        # no datetime denotes it - whatever is returned is another instant
        o = ev('%s.utc' % dx, **binds)
        run.count(1, cls='utc-reading-out-of-range')
        if o[0] == 'ok':
            _fail(run, case, 'utc-wrong',
                  '%s.utc = %r although the UTC reading of this instant is '
                  'outside the representable range' % (dx, o[1]))
        return
    got = _get(run, case, 'utc', '%s.utc' % dx, **binds)
    if got is None:
        return
    if not isinstance(got, dtm.datetime) or got.tzinfo is None or \
            to_us(got) != to_us(model) or off_min(got) != 0:
        _fail(run, case, 'utc-wrong',
              '%s.utc = %r: instant %s (expected %d), offset %s min '
              '(expected 0)' % (dx, got, to_us(got), to_us(model),
                                off_min(got)))
        return
    same = _get(run, case, 'utc-eq', 'let(d => %s) -> [$d.utc = $d, '
                '$d.utc < $d, $d.utc > $d, $d.utc.offset.microseconds]'
                % dx, **binds)
    if same is not None and list(same) != [True, False, False, 0]:
        _fail(run, case, 'utc-not-same-instant',
              '[d.utc = d, d.utc < d, d.utc > d, d.utc.offset.us] = %r'
              % (list(same),))


def law_add_sub(run, case):
    dx, binds = _d(case)
    t = case['t']
    tx = ts_expr(t) if any(t) else 'timespan()'
    model_d = mk_dt(case['d'], 'naive' if case.get('tzkind') == 'naive'
                    else 'tzoffset')
    model_t = mk_ts(t)
    text = ('let(d => %s, t => %s) -> [($d + $t) - $t, ($d + $t) - $d, '
            '$t + $d, $d - $t, $d + $t, ($d - $t) + $t]' % (dx, tx))
    if case.get('tzkind') == 'dst':
        # a host zone with a varying offset: adding a timespan moves the
        # wall clock (python's arithmetic), so only the two laws of the
        # property are judged: (d + t) - t = d, (d + t) - d = t
        host = binds['d']
        try:
            host + model_t, host - model_t, (host + model_t) - model_t
        except OverflowError:
            run.exclude('out of the datetime range')
            return
        got = _get(run, case, 'add-sub', text, **binds)
        if got is None:
            return
        back, span, back2 = got[0], got[1], got[5]
        if not isinstance(back, dtm.datetime) or back.replace(
                tzinfo=None) != host.replace(tzinfo=None) or \
                back.utcoffset() != host.utcoffset() or span != model_t or \
                back2.replace(tzinfo=None) != host.replace(tzinfo=None):
            _fail(run, case, 'add-sub-wrong',
                  '%s with d=%r -> (d + t) - t = %r, (d + t) - d = %r; t = '
                  '%r' % (text, host, back, span, model_t))
        return
    got = _get(run, case, 'add-sub', text, **binds)
    if got is None:
        return
    back, span, comm, minus, plus = got[:5]
    ok = (isinstance(back, dtm.datetime) and to_us(back) == to_us(model_d)
          and off_min(back) == off_min(model_d) and span == model_t
          and to_us(plus) == to_us(model_d) + model_t // US
          and to_us(comm) == to_us(plus)
          and to_us(minus) == to_us(model_d) - model_t // US)
    if not ok:
        _fail(run, case, 'add-sub-wrong',
              '%s -> %r (d instant %d, t %d us)' % (
                  text, got, to_us(model_d), model_t // US))


def law_compare(run, case):
    """two datetimes, possibly the same instant at two offsets"""
    f1, f2 = case['d'], case['d2']
    k1, k2 = case.get('tzkind', 'tzoffset'), case.get('tzkind2', 'tzoffset')
    m1 = mk_dt(f1, 'naive' if k1 == 'naive' else 'tzoffset')
    m2 = mk_dt(f2, 'naive' if k2 == 'naive' else 'tzoffset')
    if case.get('spelling') == 'host':
        x1, x2 = '$a', '$b'
        binds = {'a': mk_dt(f1, k1), 'b': mk_dt(f2, k2)}
    else:
        x1, x2 = dt_expr(f1), dt_expr(f2)
        binds = {}
    text = ('let(a => %s, b => %s) -> [$a = $b, $a != $b, $a < $b, '
            '$a <= $b, $a > $b, $a >= $b, ($a - $b).microseconds]' % (x1, x2))
    got = _get(run, case, 'compare', text, **binds)
    if got is None:
        return
    i1, i2 = to_us(m1), to_us(m2)
    exp = [i1 == i2, i1 != i2, i1 < i2, i1 <= i2, i1 > i2, i1 >= i2, i1 - i2]
    if list(got) != exp:
        names = ['=', '!=', '<', '<=', '>', '>=', 'diff-us']
        bad = [n for n, g, e in zip(names, got, exp) if g != e]
        _fail(run, case, 'compare-' + '-'.join(
            'eq' if b in ('=', '!=') else 'ord' if b != 'diff-us' else 'diff'
            for b in bad[:1]),
            '%s -> %r, expected %r (instants %d, %d)' % (
                text, list(got), exp, i1, i2))
        return
    # whatever orders datetimes orders them as instants
    text = ('let(a => %s, b => %s) -> [max($a, $b), min($a, $b), '
            '[$a, $b].max(), [$b, $a].min(), [$a, $b].orderBy($).last(), '
            '[$b, $a].orderByDescending($).last()]' % (x1, x2))
    got = _get(run, case, 'compare', text, **binds)
    if got is None:
        return
    hi, lo = max(i1, i2), min(i1, i2)
    exp = [hi, lo, hi, lo, hi, lo]
    ins = [to_us(g) if isinstance(g, dtm.datetime) else None for g in got]
    if ins != exp:
        _fail(run, case, 'compare-ord',
              '%s -> instants %r, expected %r' % (text, ins, exp))


def law_units(run, case):
    t = case['t']
    tx = ts_expr(t) if any(t) else 'timespan()'
    m = mk_ts(t)
    us = m // US
    text = ('let(t => %s) -> [$t.microseconds, $t.milliseconds, $t.seconds, '
            '$t.minutes, $t.hours, $t.days, '
            'timespan(microseconds => $t.microseconds) = $t, '
            'timespan(microseconds => $t.microseconds)]' % tx)
    got = _get(run, case, 'units', text)
    if got is None:
        return
    gus, ms, s, mi, h, d, eq, rebuilt = got
    exp = [us / 1e3, us / 1e6, us / 6e7, us / 3.6e9, us / 8.64e10]
    ok = (type(gus) is int and gus == us and eq is True and rebuilt == m)
    for g, e in zip([ms, s, mi, h, d], exp):
        if not isinstance(g, (int, float)) or \
                abs(g - e) > 1e-12 * max(abs(e), 1e-300):
            ok = False
    # one quantity in different units
    pairs = [(d, 24, h), (h, 60, mi), (mi, 60, s), (s, 1000, ms),
             (ms, 1000, gus)]
    for big, k, small in pairs:
        if isinstance(big, (int, float)) and isinstance(small, (int, float)):
            if abs(big * k - small) > 1e-9 * max(abs(small), 1e-300):
                ok = False
    if not ok:
        _fail(run, case, 'units-wrong', '%s -> %r, model us=%d' % (
            text, got, us))


NAIVE_PROBES = [
    '$d + $t', '$d - $t', '$t + $d', '$d - $e', '$e - $d', '$d < $e',
    '$d <= $e', '$d > $e', '$d >= $e', '$d = $e', '$d != $e', '$d = $d2',
    '$d.utc', '$d.offset', '$d.timestamp', '$d.date', '$d.time', '$d.year',
    '$d.month', '$d.day', '$d.hour', '$d.minute', '$d.second',
    '$d.microsecond', '$d.weekday', '$d.replace(hour => 3)',
    '$d.replace(offset => timespan(hours => 2))',
    "$d.format('%Y-%m-%d %H:%M:%S')", 'isDatetime($d)',
    'datetime($d.timestamp, $d.offset)', '[$d, $e].orderBy($).first() = $d',
]


def _norm(v):
    if isinstance(v, dtm.datetime):
        return ('dt', to_us(v), off_min(v), v.tzinfo is None)
    if isinstance(v, (list, tuple)):
        return [_norm(i) for i in v]
    return v


def law_naive_twin(run, case):
    """a naive host datetime behaves exactly as the same wall clock at UTC"""
    f, f2 = case['d'], case['d2']
    t = mk_ts(case['t'])
    naive = dtm.datetime(*f[:7])
    aware = naive.replace(tzinfo=tz.tzutc())
    e = mk_dt(f2, 'tzoffset')
    probe = NAIVE_PROBES[case['probe'] % len(NAIVE_PROBES)]
    a = ev(probe, d=naive, d2=aware, e=e, t=t)
    b = ev(probe, d=aware, d2=aware, e=e, t=t)
    if a[0] != b[0] or (a[0] == 'ok' and _norm(a[1]) != _norm(b[1])) or \
            (a[0] == 'exc' and type(a[1]) is not type(b[1])):
        run.violate(
            'naive-differs-from-utc-twin', case,
            '%s with naive %r -> %r; with the same wall clock at UTC -> %r'
            % (probe, naive, a[1], b[1]),
            exc=a[1] if a[0] == 'exc' else None,
            input_class='probe:' + probe)
        return
    if a[0] == 'ok' and isinstance(a[1], dtm.datetime) and \
            a[1].tzinfo is None and 'replace' not in probe:
        run.violate('naive-result-leaks', case,
                    '%s returned a naive datetime %r' % (probe, a[1]),
                    input_class='probe:' + probe)


def law_timespan_arith(run, case):
    """timespans form a consistent arithmetic: + - unary, scaling by
    integers is exact, division is its inverse, ordering is ordering of the
    microsecond counts"""
    t1, t2, n = mk_ts(case['t']), mk_ts(case['t2']), case['n']
    u1, u2 = t1 // US, t2 // US
    text = ('let(a => %s, b => %s, n => %d) -> [($a + $b).microseconds, '
            '($a - $b).microseconds, (-$a).microseconds, (+$a) = $a, '
            '($a * $n).microseconds, ($n * $a).microseconds, '
            '$a < $b, $a <= $b, $a > $b, $a >= $b, $a = $b, '
            '($a + $b) - $b = $a, isTimespan($a), isTimespan($n), '
            'isDatetime($a), utctz() = timespan()]' % (
                ts_expr(case['t']) if any(case['t']) else 'timespan()',
                ts_expr(case['t2']) if any(case['t2']) else 'timespan()', n))
    got = _get(run, case, 'timespan-arith', text)
    if got is None:
        return
    exp = [u1 + u2, u1 - u2, -u1, True, u1 * n, u1 * n, u1 < u2, u1 <= u2,
           u1 > u2, u1 >= u2, u1 == u2, True, True, False, False, True]
    if list(got) != exp:
        _fail(run, case, 'timespan-arith-wrong', '%s -> %r, expected %r' % (
            text, list(got), exp))
        return
    if n != 0 and u2 != 0:
        text2 = ('let(a => %s, b => %s, n => %d) -> [(($a * $n) / $n) = $a, '
                 '$a / $b, (($a / $n) * $n - $a).microseconds]' % (
                     ts_expr(case['t']) if any(case['t']) else 'timespan()',
                     ts_expr(case['t2']), n))
        got2 = _get(run, case, 'timespan-div', text2)
        if got2 is None:
            return
        back, ratio, resid = got2
        ok = back is True and isinstance(ratio, float) and \
            abs(ratio - u1 / u2) <= 1e-12 * max(abs(u1 / u2), 1e-300) and \
            abs(resid) <= abs(n)
        if not ok:
            _fail(run, case, 'timespan-div-wrong', '%s -> %r (a=%d us, '
                  'b=%d us)' % (text2, list(got2), u1, u2))


def law_format_parse(run, case):
    """formatting a datetime and parsing the text back gives the same
    instant and offset; a text without zone is UTC"""
    f = case['d']
    model = mk_dt(f, 'tzoffset')
    if model.year < 1000:
        run.exclude('strftime %Y is not zero padded below year 1000')
        return
    dx = dt_expr(f)
    text = ("let(d => %s) -> [datetime($d.format('%%Y-%%m-%%dT%%H:%%M:%%S.%%f%%z'), "
            "'%%Y-%%m-%%dT%%H:%%M:%%S.%%f%%z'), "
            "datetime($d.format('%%Y-%%m-%%d %%H:%%M:%%S.%%f')), "
            "datetime($d.format('%%Y-%%m-%%dT%%H:%%M:%%S.%%f%%z'))]" % dx)
    got = _get(run, case, 'format-parse', text)
    if got is None:
        return
    a, naive_text, iso = got
    wall_utc = model.replace(tzinfo=dtm.timezone.utc)
    ok = (isinstance(a, dtm.datetime) and to_us(a) == to_us(model) and
          off_min(a) == off_min(model) and
          isinstance(naive_text, dtm.datetime) and
          naive_text.tzinfo is not None and
          to_us(naive_text) == to_us(wall_utc) and off_min(naive_text) == 0
          and to_us(iso) == to_us(model) and off_min(iso) == off_min(model))
    if not ok:
        _fail(run, case, 'format-parse-wrong', '%s -> %r; d is instant %d '
              'at offset %d' % (text, got, to_us(model), off_min(model)))


def law_replace(run, case):
    f = case['d']
    model = mk_dt(f, 'tzoffset')
    h, o = case['h'], case['o']
    dx, binds = _d(case)
    model = mk_dt(f, 'naive' if case.get('tzkind') == 'naive'
                  else 'tzoffset')
    if model.tzinfo is None:
        model = model.replace(tzinfo=dtm.timezone.utc)
    text = ('let(d => %s) -> [$d.replace(hour => %d), $d.replace(offset => '
            'timespan(minutes => %s)), $d.replace(year => 2001, month => 2, '
            'day => 3, minute => 4, second => 5, microsecond => 6), '
            '$d.date, $d.time, $d.weekday, $d.year, $d.month, $d.day, '
            '$d.hour, $d.minute, $d.second, $d.microsecond, '
            '$d.offset.microseconds, isDatetime($d)]' % (dx, h,
                                                         common.lit(o)))
    got = _get(run, case, 'replace', text, **binds)
    if got is None:
        return
    r1, r2, r3, date, time, wd = got[:6]
    e1 = model.replace(hour=h)
    e2 = model.replace(tzinfo=dtm.timezone(dtm.timedelta(minutes=o)))
    e3 = model.replace(year=2001, month=2, day=3, minute=4, second=5,
                       microsecond=6)
    edate = model.replace(hour=0, minute=0, second=0, microsecond=0)
    ok = all(isinstance(x, dtm.datetime) for x in (r1, r2, r3, date)) and \
        (to_us(r1), off_min(r1)) == (to_us(e1), off_min(e1)) and \
        (to_us(r2), off_min(r2)) == (to_us(e2), off_min(e2)) and \
        (to_us(r3), off_min(r3)) == (to_us(e3), off_min(e3)) and \
        (to_us(date), off_min(date)) == (to_us(edate), off_min(edate)) and \
        time == model - edate and wd == model.weekday() and \
        list(got[6:]) == [model.year, model.month, model.day, model.hour,
                          model.minute, model.second, model.microsecond,
                          off_min(model) * 60 * 10 ** 6, True]
    if not ok:
        _fail(run, case, 'replace-or-fields-wrong', '%s -> %r' % (text, got))


def law_now(run, case):
    o = case['o']
    got = _get(run, case, 'now', 'let(n => now(timespan(minutes => $o)), '
               'u => now()) -> [$n.offset.microseconds, ($n - $u).seconds, '
               '$u.offset.microseconds, isDatetime($n)]', o=o)
    if got is None:
        return
    if got[0] != o * 60 * 10 ** 6 or abs(got[1]) > 60 or got[2] != 0 or \
            got[3] is not True:
        _fail(run, case, 'now-wrong', 'now(offset %d min) -> %r' % (o, got))


LAWS = {
    'timespan-arith': law_timespan_arith,
    'format-parse': law_format_parse,
    'replace-fields': law_replace,
    'now': law_now,
    'timestamp-of-built': law_timestamp_of_built,
    'rebuild-from-timestamp': law_rebuild_from_timestamp,
    'timestamp-value': law_timestamp_value,
    'utc': law_utc,
    'add-sub': law_add_sub,
    'compare': law_compare,
    'units': law_units,
    'naive-twin': law_naive_twin,
}
REPLAY = {'law': check_law}


# --------------------------------------------------------------------------
# strategies

offsets = st.one_of(st.just(0), st.integers(-1439, 1439),
                    st.sampled_from([60, -60, 180, 330, -720, 840, 1439,
                                     -1439, 1, -1]))


@st.composite
def dt_fields(draw):
    d = draw(st.datetimes(min_value=dtm.datetime(300, 1, 1),
                          max_value=dtm.datetime(9700, 12, 31)))
    if draw(st.integers(0, 3)) == 0:
        d = d.replace(microsecond=draw(st.sampled_from([0, 1, 999999])))
    return [d.year, d.month, d.day, d.hour, d.minute, d.second,
            d.microsecond, draw(offsets)]


span = st.tuples(
    st.one_of(st.just(0), st.integers(-10 ** 5, 10 ** 5)),
    st.one_of(st.just(0), st.integers(-100, 100)),
    st.one_of(st.just(0), st.integers(-1000, 1000)),
    st.one_of(st.just(0), st.integers(-10 ** 5, 10 ** 5)),
    st.one_of(st.just(0), st.integers(-10 ** 6, 10 ** 6)),
    st.one_of(st.just(0), st.integers(-10 ** 9, 10 ** 9))).map(list)

stamps = st.one_of(
    st.integers(-50000000000, 240000000000),
    st.integers(-10 ** 5, 10 ** 5),
    st.integers(1, 9999),            # (numbers that could be years)
    st.floats(-5e10, 2.4e11, allow_nan=False),
    st.floats(-1e6, 1e6, allow_nan=False),
    st.sampled_from([0, 1, -1, 0.5, -0.5, 2 ** 31, 1e9 + 0.000001,
                     1000000, 1.5e9]))

tzkinds = st.sampled_from(['tzoffset', 'timezone', 'tzutc', 'naive'])


@st.composite
def cases(draw):
    law = draw(st.sampled_from(sorted(LAWS)))
    c = {'kind': 'law', 'law': law}
    if law == 'timestamp-of-built':
        c['s'] = common.enc(draw(stamps))
        c['o'] = draw(offsets)
        return c
    if law == 'units':
        c['t'] = draw(span)
        if draw(st.integers(0, 2)) == 0:
            # spans of centuries (the difference of two far-apart dates):
            # beyond 2**53 microseconds a float no longer holds them exactly
            c['t'][0] = draw(st.integers(-3600000, 3600000))
            c['t'][5] = draw(st.sampled_from([1, -1, 3, 999999, 7]))
        return c
    if law == 'timespan-arith':
        c['t'] = draw(span)
        c['t2'] = draw(span)
        c['n'] = draw(st.integers(-5, 7))
        return c
    if law == 'now':
        c['o'] = draw(offsets)
        return c
    if law == 'format-parse':
        c['d'] = draw(dt_fields())
        return c
    c['d'] = draw(dt_fields())
    c['spelling'] = draw(st.sampled_from(['expr', 'host']))
    if c['spelling'] == 'host':
        c['tzkind'] = draw(tzkinds)
        if c['tzkind'] == 'naive':
            c['d'][7] = 0
    if law == 'replace-fields':
        c['h'] = draw(st.integers(0, 23))
        c['o'] = draw(offsets)
        if c['d'][1] == 2 and c['d'][2] == 29:
            c['d'][2] = 28
    if law in ('add-sub', 'naive-twin'):
        c['t'] = draw(span)
    if law == 'add-sub' and draw(st.integers(0, 2)) == 0:
        # host datetime in a zone with a varying offset; timespans of days
        # and months so that the offset changes in between
        c['spelling'] = 'host'
        c['tzkind'] = 'dst'
        c['t'] = [draw(st.integers(-400, 400))] + draw(span)[1:]
        if draw(st.booleans()):
            # d + t (or d - t) is a wall-clock time that the zone skips:
            # the first hour of April does not exist there
            days = draw(st.integers(-400, 400))
            target = dtm.datetime(draw(st.integers(1900, 2100)), 4, 1, 0,
                                  draw(st.integers(0, 59)),
                                  draw(st.integers(0, 59)))
            sign = draw(st.sampled_from([1, -1]))
            d0 = target - sign * dtm.timedelta(days=days)
            c['d'] = [d0.year, d0.month, d0.day, d0.hour, d0.minute,
                      d0.second, 0, c['d'][7]]
            c['t'] = [sign * days, 0, 0, 0, 0, 0]
    if law in ('compare', 'naive-twin'):
        same = draw(st.integers(0, 2)) == 0
        if same and law == 'compare':
            # the same instant spelled at another offset - or an instant a
            # microsecond or two away from it (far from 1970 neighbouring
            # microseconds share one float)
            o2 = draw(offsets)
            m = mk_dt(c['d'], 'tzoffset').astimezone(
                dtm.timezone(dtm.timedelta(minutes=o2)))
            m = m + dtm.timedelta(microseconds=draw(st.sampled_from(
                [0, 0, 1, -1, 2, -3])))
            c['d2'] = [m.year, m.month, m.day, m.hour, m.minute, m.second,
                       m.microsecond, o2]
        else:
            c['d2'] = draw(dt_fields())
        if c['spelling'] == 'host':
            c['tzkind2'] = draw(tzkinds)
            if c['tzkind2'] == 'naive':
                if same and law == 'compare':
                    m = mk_dt(c['d'], 'tzoffset').astimezone(dtm.timezone.utc)
                    c['d2'] = [m.year, m.month, m.day, m.hour, m.minute,
                               m.second, m.microsecond, 0]
                else:
                    c['d2'][7] = 0
    if law in ('compare', 'utc') and c['spelling'] == 'expr' and \
            draw(st.integers(0, 5)) == 0:
        # the first and the last day of the range, at offsets that put
        # their UTC reading outside it
        edge = [[1, 1, 1, draw(st.integers(0, 2)), 30, 0, 0,
                 draw(st.sampled_from([180, 600, 1439]))],
                [9999, 12, 31, 23, draw(st.integers(0, 59)), 59, 5,
                 draw(st.sampled_from([-180, -600, -1439]))],
                [1, 1, 1, 0, 0, 0, 0, 0], [9999, 12, 31, 23, 59, 59, 999999,
                                           0]]
        c['d'] = draw(st.sampled_from(edge))
        if draw(st.booleans()):
            c['d2'] = draw(st.sampled_from(edge))
    if law == 'naive-twin':
        c['probe'] = draw(st.integers(0, len(NAIVE_PROBES) - 1))
        c['tzkind'] = 'naive'
        c['spelling'] = 'host'
        c['d'][7] = 0
    return c


def _shard(run, n, shard):
    run.hyp('laws', cases(), lambda c: check_law(run, c), n, shard=shard)


def run(run):
    full = run.tier == 'thorough'
    _eng()
    common.std_context()
    k = 16
    n = (160000 if full else 16000) // k
    run.shards(_shard, [(n, i) for i in range(k)])

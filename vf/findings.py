"""KNOWN_FINDINGS.json: read-only at run time.

Entry: {"property", "signature", "what_fails", "example", "status":
"known"|"fixed", "commit"?}.  Only status == "known" suppresses, and only an
exactly equal signature.  Signature = property|clause|exception class|innermost
yaql frame (file:function)|structural input class.
"""
import json
import os
import traceback

ROOT = os.path.dirname(os.path.dirname(os.path.abspath(__file__)))
PATH = os.path.join(ROOT, 'KNOWN_FINDINGS.json')


def load(prop=None):
    if not os.path.exists(PATH):
        return []
    with open(PATH) as f:
        data = json.load(f)
    items = data.get('findings', [])
    return [e for e in items
            if e.get('status') == 'known' and
            (prop is None or e.get('property') == prop)]


def innermost_frame(exc):
    """file:function of the innermost frame that lies inside the yaql tree."""
    if exc is None or exc.__traceback__ is None:
        return '-'
    best = '-'
    for fs in traceback.extract_tb(exc.__traceback__):
        fn = fs.filename.replace('\\', '/')
        if '/yaql/' in fn and '/vf/' not in fn:
            best = '%s:%s' % (fn.rsplit('/yaql/', 1)[1], fs.name)
    return best


def signature(prop, clause, exc=None, input_class=None):
    return '|'.join([
        prop, clause,
        type(exc).__name__ if exc is not None else '-',
        innermost_frame(exc),
        input_class or '-'])


def match(known, sig):
    for e in known:
        if e['signature'] == sig:
            return e
    return None

"""Enumerates the FunctionDefinitions of the live standard context and builds
calls against isolated clones of them (shared by C07, C08, C09, C11, C12).

A call is rendered as YAQL text against a clone registered under a fresh
plain name in a child of the standard context, so every definition -
including operators and '#'-named system functions - has call syntax, the
delegates it needs still resolve, and sibling overloads cannot compete.
"""
import collections
import datetime
import re

import yaql
from yaql.language import contexts, specs, yaqltypes
from yaql.language import utils as yutils
from yaql import yaqlization

from vf import common

Param = collections.namedtuple(
    'Param', 'key name alias position has_default default cls vt lazy hidden')


def classify(vt):
    t = type(vt).__name__
    if t == 'PythonType':
        pt = vt.python_type
        if isinstance(pt, tuple):
            return 'Py:' + '|'.join(x.__name__ for x in pt)
        return 'Py:' + pt.__name__
    if t in ('AnyOf', 'Chain'):
        return t
    if t == 'NotOfType':
        return 'NotOfType'
    if t == 'Lambda' and vt.method:
        return 'LambdaMethod'
    return t


class Def:
    def __init__(self, fd, layer, ordinal):
        self.fd = fd
        self.layer = layer
        self.ordinal = ordinal
        self.id = 'L%d:%s#%d' % (layer, fd.name, ordinal)
        self.clone_name = None      # set by definitions(): globally unique
        self.params = []
        for key, pd in fd.parameters.items():
            vt = pd.value_type
            self.params.append(Param(
                key, pd.name, pd.alias or pd.name, pd.position,
                pd.default is not specs.NO_DEFAULT, pd.default, classify(vt),
                vt, isinstance(vt, yaqltypes.LazyParameterType),
                isinstance(vt, yaqltypes.HiddenParameterType)))
        vis = [p for p in self.params if not p.hidden]
        self.positional = sorted(
            [p for p in vis if p.position is not None and p.key != '*'],
            key=lambda p: p.position)
        self.varargs = next((p for p in vis if p.key == '*'), None)
        self.kwonly = [p for p in vis if p.position is None and p.key != '**']
        self.kwargs = next((p for p in vis if p.key == '**'), None)
        self.method_only = fd.is_method and not fd.is_function
        self.no_kwargs = fd.no_kwargs

    @property
    def visible(self):
        out = list(self.positional)
        if self.varargs:
            out.append(self.varargs)
        out += self.kwonly
        if self.kwargs:
            out.append(self.kwargs)
        return out

    def __repr__(self):
        return '<Def %s>' % self.id


_CACHE = {}


_CONVENTIONS = {}


def convention(name):
    """one instance per naming convention (contexts are cached by it)"""
    from yaql.language import conventions
    if name not in _CONVENTIONS:
        _CONVENTIONS[name] = {
            'python': conventions.PythonConvention,
            'camel': conventions.CamelCaseConvention}[name]()
    return _CONVENTIONS[name]


def base_context(delegates=True, conv=None):
    if conv is None:
        return common.std_context(delegates=delegates)
    if conv == 'none':
        # the library registered into a context that has no naming
        # convention at all (contexts.Context() as hosts create it)
        key = ('no-convention', delegates)
        if key not in _CONVENTIONS:
            import yaql
            from yaql.language import contexts
            _CONVENTIONS[key] = yaql.create_context(
                context=contexts.Context(), delegates=delegates)
        return _CONVENTIONS[key]
    return common.std_context(delegates=delegates,
                              convention=convention(conv))


def definitions(delegates=True, conv=None):
    """All definitions of yaql.create_context(delegates=...), nearest layer
    first, in a deterministic order.  conv: None (the default context) or
    the name of a naming convention the context is created with."""
    key = (delegates, conv) if conv else delegates
    if key in _CACHE:
        return _CACHE[key]
    ctx = base_context(delegates, conv)
    out = []
    layer = 0
    p = ctx
    while p is not None:
        funcs = getattr(p, '_functions', {})
        for name in sorted(funcs):
            fds = sorted(funcs[name], key=lambda f: (
                f.payload.__module__,
                getattr(f.payload, '__qualname__', ''),
                getattr(getattr(f.payload, '__code__', None),
                        'co_firstlineno', 0),
                len(f.parameters)))
            for i, fd in enumerate(fds):
                out.append(Def(fd, layer, i))
        p = p.parent
        layer += 1
    for n, d in enumerate(out):
        d.clone_name = 'zqf%d' % n
    _CACHE[key] = out
    return out


def clone_context(defs=None, delegates=True, on_enter=None, conv=None):
    """Child of the standard context holding a clone of every definition
    under its clone_name.  on_enter(def, args, kwargs) is called when a
    clone's payload is entered."""
    defs = defs if defs is not None else definitions(delegates, conv)
    ctx = base_context(delegates, conv).create_child_context()
    for d in defs:
        fd = d.fd.clone()
        fd.name = d.clone_name
        if on_enter is not None:
            fd.payload = _wrap(d, d.fd.payload, on_enter)
        ctx.register_function(fd)
    return ctx


def _wrap(d, payload, on_enter):
    def wrapper(*a, **kw):
        on_enter(d, a, kw)
        return payload(*a, **kw)
    wrapper.__name__ = getattr(payload, '__name__', 'payload')
    return wrapper


# --------------------------------------------------------------------------
# typed corpus: class -> list of ('var', python value) | ('src', yaql text)

@yaqlization.yaqlize
class YObj:
    def __init__(self):
        self.attr = 5

    def method(self, x=1):
        return x

    def __getitem__(self, k):
        return k


def _ordering():
    eng = common.engine({'yaql.convertOutputData': False})
    return eng('[3, 1, 2].orderBy($)').evaluate(context=common.child())


def corpus():
    """fresh values on every call (iterators are one-shot)"""
    fd = yutils.FrozenDict
    return {
        'Py:object': [('var', 1), ('var', 'ab'), ('var', (1, 2, 3)),
                      ('var', None), ('var', fd({'a': 1})), ('var', True),
                      ('var', 2.5)],
        'String': [('var', 'abc'), ('var', ''), ('var', 'a b'),
                   ('var', 'xabcx')],
        'Py:str': [('var', 'abc')],
        'Py:int': [('var', 1), ('var', 0), ('var', 2), ('var', -1),
                   ('var', 3)],
        'Integer': [('var', 1), ('var', 0), ('var', 2), ('var', -1)],
        'Number': [('var', 1), ('var', 2.5), ('var', 0), ('var', -3)],
        'Iterable': [('var', (1, 2, 3)), ('var', ()), ('var', (3, 1, 2, 1)),
                     ('var', ('a', 'b')), ('var', ((1, 2), (3, 4))),
                     ('var', frozenset([1, 2]))],
        'Iterator': [('var', iter([1, 2, 3])), ('var', iter([]))],
        'Py:Iterator': [('var', iter([1, 2, 3])), ('var', iter([]))],
        'Sequence': [('var', (1, 2, 3)), ('var', ()), ('var', ('a', 'b'))],
        'Lambda': [('src', '$'), ('src', '$ > 1'), ('src', 'true'),
                   ('src', 'null'), ('src', '$1')],
        'LambdaMethod': [('src', 'len()'), ('src', 'toList()')],
        'callable': [('var', _callable)],
        'Py:timedelta': [('var', datetime.timedelta(hours=1)),
                         ('var', datetime.timedelta(0)),
                         ('var', datetime.timedelta(days=-1, seconds=5))],
        'DateTime': [('var', datetime.datetime(
            2020, 1, 2, 3, 4, 5, tzinfo=datetime.timezone.utc)),
            ('var', datetime.datetime(2001, 1, 1))],
        'Py:datetime': [('var', datetime.datetime(
            2020, 1, 2, 3, 4, 5, tzinfo=datetime.timezone.utc))],
        'Py:Mapping': [('var', fd({'a': 1, 'b': 2})), ('var', fd()),
                       ('var', fd({1: (1, 2)})),
                       ('var', fd({'1st': 1, 'ok': (2,), '': 3, '__h': 4}))],
        'Py:Set': [('var', frozenset([1, 2])), ('var', frozenset()),
                   ('var', frozenset(['a']))],
        'Py:bool': [('var', True), ('var', False)],
        'Py:NoneType': [('var', None)],
        'Py:Pattern': [('var', re.compile('a.')), ('var', re.compile('(b)'))],
        'Keyword': [('src', 'attr'), ('src', 'a'), ('src', 'method')],
        'StringConstant': [('src', "'x'"), ('src', "'$'")],
        'Yaqlized': [('var', YObj())],
        'Py:MappingRule': [('var', yutils.MappingRule('a', 1))],
        'MappingRule': [('src', 'a => 1'), ('src', '1 => 2')],
        'Py:OrderingIterable': [('var', _ordering())],
        'YaqlExpression': [('src', 'len()'), ('src', 'a')],
        'Py:ContextBase': [('var', contexts.Context())],
        'AnyOf': [('var', 1), ('var', 'a')],
        'Chain': [('var', 1)],
        'NotOfType': [('var', 1), ('var', 'a')],
        'Py:int|float': [('var', 1), ('var', 2.5)],
    }


def _callable(*a, **kw):
    return len(a)


def filler(corp, p, k):
    if p.name == 'callable_':
        return corp['callable'][0]
    vals = corp.get(p.cls) or corp['Py:object']
    return vals[k % len(vals)]


class Call:
    """A call shape against one definition: positional fillers (receiver
    first for methods), extra varargs, keyword fillers."""

    def __init__(self, d, positional, kw=None):
        self.d = d
        self.positional = list(positional)
        self.kw = list(kw or [])

    def render(self, name=None, as_method=None):
        """YAQL text and variable bindings"""
        binds = {}

        def r(f):
            kind, v = f
            if kind == 'src':
                return v
            n = 'v%d' % len(binds)
            binds[n] = v
            return '$' + n
        name = name or self.d.clone_name
        parts = [r(f) for f in self.positional]
        kws = ['%s => %s' % (k, r(f)) for k, f in self.kw]
        method = self.d.method_only if as_method is None else as_method
        if method and parts:
            text = '%s.%s(%s)' % (parts[0], name, ', '.join(parts[1:] + kws))
        else:
            text = '%s(%s)' % (name, ', '.join(parts + kws))
        return text, binds


def default_call(d, k=0, corp=None, extra_varargs=1):
    """Call with every mandatory and defaulted positional parameter filled
    with the k-th filler of its class."""
    corp = corp or corpus()
    pos = [filler(corp, p, k + i) for i, p in enumerate(d.positional)]
    if d.varargs:
        pos += [filler(corp, d.varargs, k + j) for j in range(extra_varargs)]
    kw = []
    if not d.no_kwargs:
        kw = [(p.alias, filler(corp, p, k)) for p in d.kwonly]
    return Call(d, pos, kw)


def positions(d):
    """indices into default_call(d).positional + keyword names that hold a
    visible parameter"""
    out = [('pos', i, p) for i, p in enumerate(d.positional)]
    if d.varargs:
        out.append(('pos', len(d.positional), d.varargs))
    if not d.no_kwargs:
        out += [('kw', p.alias, p) for p in d.kwonly]
    return out


def with_target(call, where, f):
    """copy of call with the filler at `where` replaced by f"""
    c = Call(call.d, call.positional, call.kw)
    kind, key, p = where
    if kind == 'pos':
        while len(c.positional) <= key:
            c.positional.append(('var', None))
        c.positional[key] = f
    else:
        c.kw = [(k, f if k == key else v) for k, v in c.kw]
        if key not in [k for k, v in c.kw]:
            c.kw.append((key, f))
    return c


def evaluate(text, binds, ctx, engine=None, extra=None):
    engine = engine or common.engine()
    c = ctx.create_child_context()
    for k, v in binds.items():
        c['$' + k] = v
    for k, v in (extra or {}).items():
        c['$' + k] = v
    return engine(text).evaluate(context=c)


def wrapped_context(on_enter, on_return=None, delegates=True):
    """Child of the standard context holding, under the *real* names, a
    clone of every definition whose payload reports to on_enter(def, args,
    kwargs) / on_return(def, result).  The child layer shadows the library
    layers (same signatures, nearer layer wins), so every call made by an
    expression - including delegates such as 'str' or '#operator_<' - goes
    through the wrappers."""
    ctx = common.std_context(delegates=delegates)
    defs = definitions(delegates)
    nlayers = max(d.layer for d in defs) + 1
    # mirror the library's layering: farthest layer first
    for layer in reversed(range(nlayers)):
        ctx = ctx.create_child_context()
        for d in defs:
            if d.layer != layer:
                continue
            fd = d.fd.clone()

            def mk(d, payload):
                def wrapper(*a, **kw):
                    on_enter(d, a, kw)
                    r = payload(*a, **kw)
                    if on_return is not None:
                        on_return(d, r)
                    return r
                return wrapper
            fd.payload = mk(d, d.fd.payload)
            ctx.register_function(fd)
    return ctx

"""S-expression fingerprints of parse trees (Wrap is transparent)."""
from yaql.language import expressions as ex
from yaql.language import utils as yutils


def sexpr(node):
    if isinstance(node, ex.Statement):
        return sexpr(node.expression)
    if isinstance(node, ex.Wrap):
        return sexpr(node.expr)
    if node is yutils.NO_VALUE:
        return '<skip>'
    if isinstance(node, ex.GetContextValue):
        return node.path.value
    if isinstance(node, ex.KeywordConstant):
        return 'kw:' + str(node.value)
    if isinstance(node, ex.Constant):
        v = node.value
        return '%s:%r' % (type(v).__name__, v)
    if isinstance(node, ex.MappingRuleExpression):
        return '(=> %s %s)' % (sexpr(node.source), sexpr(node.destination))
    if isinstance(node, ex.Function):
        return '(%s%s)' % (node.name, ''.join(
            ' ' + sexpr(a) for a in node.args))
    return '?' + type(node).__name__


def parse_outcome(engine, text):
    """('ok', sexpr) or ('exc', class name, position, value, message)."""
    from yaql.language import exceptions as yexc
    try:
        return ('ok', sexpr(engine(text)))
    except yexc.YaqlParsingException as e:
        return ('exc', type(e).__name__, e.position,
                e.value if isinstance(e.value, (str, int, float, bool,
                                                type(None))) else repr(e.value),
                str(e))
    except Exception as e:
        return ('exc', type(e).__name__, None, None, str(e))

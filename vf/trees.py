"""S-expression fingerprints of parse trees (Wrap is transparent)."""
from yaql.language import expressions as ex
from yaql.language import utils as yutils


def sexpr(node):
    if isinstance(node, ex.Statement):
        return sexpr(node.expression)
    if isinstance(node, ex.Wrap):
        return sexpr(node.expr)
    if node is yutils.NO_VALUE:
        return '<skip>'
    if isinstance(node, ex.GetContextValue):
        return node.path.value
    if isinstance(node, ex.KeywordConstant):
        return 'kw:' + str(node.value)
    if isinstance(node, ex.Constant):
        v = node.value
        return '%s:%r' % (type(v).__name__, v)
    if isinstance(node, ex.MappingRuleExpression):
        return '(=> %s %s)' % (sexpr(node.source), sexpr(node.destination))
    if isinstance(node, ex.Function):
        return '(%s%s)' % (node.name, ''.join(
            ' ' + sexpr(a) for a in node.args))
    return '?' + type(node).__name__


def parse_outcome(engine, text, keep=None):
    """('ok', sexpr) or ('exc', class name, position, value, message).
    keep: a list that receives the statement / exception object, so that it
    stays referenced the way a host keeps parsed statements around."""
    from yaql.language import exceptions as yexc
    try:
        stmt = engine(text)
        if keep is not None:
            keep.append(stmt)
        return ('ok', sexpr(stmt))
    except yexc.YaqlParsingException as e:
        if keep is not None:
            keep.append(e)
        return ('exc', type(e).__name__, e.position,
                e.value if isinstance(e.value, (str, int, float, bool,
                                                type(None))) else repr(e.value),
                str(e))
    except Exception as e:
        return ('exc', type(e).__name__, None, None, str(e))

"""Shared harness pieces: engines, contexts, probes, sources, snapshots."""
import collections
import collections.abc
import datetime
import re
import sys

import yaql
from yaql.language import contexts
from yaql.language import exceptions as yexc
from yaql.language import factory as yfactory
from yaql.language import specs
from yaql.language import utils as yutils
from yaql.language import yaqltypes
from yaql import legacy as ylegacy


class HarnessAbort(BaseException):
    """Raised by instrumented sources when a pull budget is exhausted."""


# --------------------------------------------------------------------------
# engines

_ENGINES = {}


def _freeze(o):
    if isinstance(o, dict):
        return tuple(sorted((k, _freeze(v)) for k, v in o.items()))
    if isinstance(o, (list, tuple)):
        return tuple(_freeze(v) for v in o)
    return o


def engine(options=None, kind='default', inserts=(), allow_delegates=False,
           cache=True):
    """Engine built the way a host would; cached per configuration."""
    key = (kind, _freeze(options or {}), _freeze(inserts), allow_delegates)
    if cache and key in _ENGINES:
        return _ENGINES[key]
    f = make_factory(kind, inserts, allow_delegates)
    e = f.create(options=dict(options or {}))
    if cache:
        _ENGINES[key] = e
    return e


def make_factory(kind='default', inserts=(), allow_delegates=False):
    if kind == 'legacy':
        f = ylegacy.YaqlFactory(allow_delegates=allow_delegates)
    else:
        f = yfactory.YaqlFactory(allow_delegates=allow_delegates)
    for ins in inserts:
        f.insert_operator(*ins)
    return f


_STD_CTX = {}


def std_context(delegates=False, legacy=False, **kw):
    """The standard library context (shared, never written by the harness)."""
    key = (delegates, legacy, _freeze(kw))
    if key not in _STD_CTX:
        if legacy:
            _STD_CTX[key] = ylegacy.create_context(**kw)
        else:
            _STD_CTX[key] = yaql.create_context(delegates=delegates, **kw)
    return _STD_CTX[key]


def child(ctx=None):
    return (ctx or std_context()).create_child_context()


# --------------------------------------------------------------------------
# probes

class TickLog(list):
    pass


def add_tick(ctx, log):
    """Register tick(id, value=null): appends id to log, returns value."""
    def tick(id, value=None):
        log.append(id)
        return value
    ctx.register_function(tick, name='tick')
    return ctx


class Source:
    """Python-level instrumented iterator.

    Yields pattern[i % len(pattern)] + (i // len) * step, or i when no
    pattern; endless unless n is given.  Raises HarnessAbort when pulled
    more than `budget` times.
    """

    def __init__(self, n=None, budget=10 ** 6, values=None, hook=None):
        self.n = n
        self.budget = budget
        self.values = values
        self.pulls = 0
        self.hook = hook

    def __iter__(self):
        return self

    def __next__(self):
        if self.hook is not None:
            self.hook()
        if self.n is not None and self.pulls >= self.n:
            raise StopIteration
        if self.pulls >= self.budget:
            self.pulls += 1
            raise HarnessAbort('source pulled %d times (budget %d)' % (
                self.pulls, self.budget))
        i = self.pulls
        self.pulls += 1
        if self.values is not None:
            return self.values[i % len(self.values)]
        return i


class ReSource:
    """A lazy host collection that can be iterated again and again but is
    neither an iterator nor sized (like an ORM query object): __iter__ is a
    generator function over one shared instrumented Source."""

    def __init__(self, **kw):
        self.src = Source(**kw)

    def __iter__(self):
        src = self.src

        def gen():
            while True:
                try:
                    yield next(src)
                except StopIteration:
                    return
        return gen()

    @property
    def pulls(self):
        return self.src.pulls


# --------------------------------------------------------------------------
# outcomes

def outcome(fn):
    """('ok', value) or ('exc', exception)."""
    try:
        return ('ok', fn())
    except HarnessAbort:
        raise
    except RecursionError as e:
        return ('exc', e)
    except Exception as e:
        return ('exc', e)


def exc_family(e):
    """Coarse classes for comparisons where the docs say nothing finer."""
    if isinstance(e, (yexc.NoMatchingFunctionException,
                      yexc.NoMatchingMethodException,
                      yexc.NoFunctionRegisteredException,
                      yexc.NoMethodRegisteredException,
                      yexc.AmbiguousFunctionException,
                      yexc.AmbiguousMethodException)):
        return 'resolution'
    if isinstance(e, (KeyError, IndexError, AttributeError)):
        return 'lookup'
    if isinstance(e, (yexc.CollectionTooLargeException,
                      yexc.MemoryQuotaExceededException)):
        return 'limit'
    return 'other'


# --------------------------------------------------------------------------
# structural helpers

PLAIN_SCALARS = (type(None), bool, int, float, str, datetime.datetime,
                 datetime.timedelta, re.Pattern)


def census(x, depth=0, out=None, pos='root'):
    """Multiset of (position kind, python type name) over a result."""
    if out is None:
        out = collections.Counter()
    out[(pos, type(x).__name__)] += 1
    if depth > 40:
        return out
    if isinstance(x, dict):
        for k, v in x.items():
            census(k, depth + 1, out, 'key')
            census(v, depth + 1, out, 'value')
    elif isinstance(x, (list, tuple)):
        for v in x:
            census(v, depth + 1, out, 'elem')
    elif isinstance(x, (set, frozenset)):
        for v in x:
            census(v, depth + 1, out, 'member')
    return out


def snapshot(x, depth=0):
    """Structural copy recording container types (for before/after)."""
    if depth > 40:
        return ('deep',)
    if isinstance(x, dict):
        return ('dict', tuple((snapshot(k, depth + 1), snapshot(v, depth + 1))
                              for k, v in x.items()))
    if isinstance(x, yutils.FrozenDict):
        return ('FrozenDict', tuple(
            (snapshot(k, depth + 1), snapshot(v, depth + 1))
            for k, v in x.items()))
    if isinstance(x, list):
        return ('list', tuple(snapshot(v, depth + 1) for v in x))
    if isinstance(x, tuple):
        return ('tuple', tuple(snapshot(v, depth + 1) for v in x))
    if isinstance(x, (set, frozenset)):
        return (type(x).__name__, frozenset(snapshot(v, depth + 1) for v in x))
    if isinstance(x, PLAIN_SCALARS):
        return (type(x).__name__, x)
    return ('obj', id(x))


def mutable_containers(x, depth=0, out=None):
    """All mutable containers reachable in x (by identity)."""
    if out is None:
        out = {}
    if depth > 40 or id(x) in out:
        return out
    if isinstance(x, dict):
        out[id(x)] = x
        for k, v in x.items():
            mutable_containers(k, depth + 1, out)
            mutable_containers(v, depth + 1, out)
    elif isinstance(x, list):
        out[id(x)] = x
        for v in x:
            mutable_containers(v, depth + 1, out)
    elif isinstance(x, set):
        out[id(x)] = x
        for v in x:
            mutable_containers(v, depth + 1, out)
    elif isinstance(x, (tuple, frozenset)):
        for v in x:
            mutable_containers(v, depth + 1, out)
    elif isinstance(x, yutils.FrozenDict):
        for k, v in x.items():
            mutable_containers(k, depth + 1, out)
            mutable_containers(v, depth + 1, out)
    return out


# --------------------------------------------------------------------------
# JSON codec for replay cases (tuples, sets, big ints, datetimes survive)

def enc(x):
    if x is None or isinstance(x, (bool, str)):
        if isinstance(x, str):
            try:
                x.encode('utf-8')
            except UnicodeEncodeError:
                return {'$t': 'sstr',
                        'v': x.encode('utf-8', 'surrogatepass').hex()}
        return x
    if isinstance(x, int):
        return x if abs(x) < 2 ** 53 else {'$t': 'int', 'v': str(x)}
    if isinstance(x, float):
        return {'$t': 'float', 'v': repr(x)}
    if isinstance(x, list):
        return [enc(v) for v in x]
    if isinstance(x, tuple):
        return {'$t': 'tuple', 'v': [enc(v) for v in x]}
    if isinstance(x, (set, frozenset)):
        return {'$t': type(x).__name__,
                'v': sorted((enc(v) for v in x), key=repr)}
    if isinstance(x, (dict, yutils.FrozenDict)):
        return {'$t': 'dict', 'v': [[enc(k), enc(v)] for k, v in x.items()]}
    if isinstance(x, datetime.datetime):
        off = x.utcoffset()
        return {'$t': 'datetime', 'v': [
            x.year, x.month, x.day, x.hour, x.minute, x.second,
            x.microsecond],
            'off': None if off is None else off.total_seconds()}
    if isinstance(x, datetime.timedelta):
        return {'$t': 'timedelta',
                'v': [x.days, x.seconds, x.microseconds]}
    return {'$t': 'repr', 'v': repr(x)}


def dec(x):
    if isinstance(x, list):
        return [dec(v) for v in x]
    if isinstance(x, dict):
        t = x.get('$t')
        v = x.get('v')
        if t == 'int':
            return int(v)
        if t == 'float':
            return float(v)
        if t == 'sstr':
            return bytes.fromhex(v).decode('utf-8', 'surrogatepass')
        if t == 'tuple':
            return tuple(dec(i) for i in v)
        if t == 'set':
            return set(dec(i) for i in v)
        if t == 'frozenset':
            return frozenset(dec(i) for i in v)
        if t == 'dict':
            return {dec(k): dec(w) for k, w in v}
        if t == 'datetime':
            tzinfo = None
            if x.get('off') is not None:
                tzinfo = datetime.timezone(
                    datetime.timedelta(seconds=x['off']))
            return datetime.datetime(*v, tzinfo=tzinfo)
        if t == 'timedelta':
            return datetime.timedelta(days=v[0], seconds=v[1],
                                      microseconds=v[2])
        if t == 'repr':
            return v
        return {k: dec(w) for k, w in x.items()}
    return x


def yq(s):
    """Quote a python string as a single-quoted YAQL literal."""
    return "'" + s.replace('\\', '\\\\').replace("'", "\\'") + "'"


def lit(v):
    """Render a JSON-like python value as YAQL source."""
    if v is None:
        return 'null'
    if v is True:
        return 'true'
    if v is False:
        return 'false'
    if isinstance(v, int):
        return str(v) if v >= 0 else '(-%d)' % -v
    if isinstance(v, float):
        s = '%.17g' % abs(v)
        if 'e' in s or 'inf' in s or 'nan' in s:
            raise ValueError('float not printable as YAQL literal: %r' % v)
        if '.' not in s:
            s += '.0'
        return s if v >= 0 and str(v)[0] != '-' else '(-%s)' % s
    if isinstance(v, str):
        return yq(v)
    if isinstance(v, (list, tuple)):
        return '[' + ', '.join(lit(i) for i in v) + ']'
    if isinstance(v, dict):
        return '{' + ', '.join('%s => %s' % (lit(k), lit(w))
                               for k, w in v.items()) + '}'
    raise ValueError('no literal for %r' % (v,))


def set_rlimit(gib=3):
    try:
        import resource
        lim = int(gib * 1024 ** 3)
        resource.setrlimit(resource.RLIMIT_AS, (lim, lim))
    except Exception:
        pass


def py_version():
    return sys.version.split()[0]


# --------------------------------------------------------------------------
# process-wide interpreter settings

_PRISTINE = {}


def reset_process_state():
    """Put the process-wide interpreter settings that code under test could
    touch (warning filters, recursion limit) back to what they were when the
    harness first asked: a case must not inherit what an earlier case left
    behind, or a defect shows only once per process and never replays."""
    import warnings
    if not _PRISTINE:
        _PRISTINE['filters'] = list(warnings.filters)
        _PRISTINE['recursion'] = sys.getrecursionlimit()
        return
    if list(warnings.filters) != _PRISTINE['filters']:
        warnings.filters[:] = _PRISTINE['filters']
        if hasattr(warnings, '_filters_mutated'):
            warnings._filters_mutated()
    if sys.getrecursionlimit() != _PRISTINE['recursion']:
        sys.setrecursionlimit(_PRISTINE['recursion'])

"""Regenerates /verif/MANIFEST.json from the table below.

    /venv/bin/python -m vf.mkmanifest
"""
import json
import os

ROOT = os.path.dirname(os.path.dirname(os.path.abspath(__file__)))

# id -> (technique, level text, level note, design ref)
CHECKS = {
    'C01': (
        'Hypothesis-generated parse histories and thread schedules (harness-'
        'owned cooperative scheduler at token-fetch granularity, exhaustive '
        'DFS for short text pairs) + free-running threads; differential '
        'against a fresh engine per text',
        'Generated-input search over (texts, order, thread assignment, '
        'schedule). Sequential histories incl. failed parses and '
        'near-duplicate texts on one long-lived engine; every token-fetch '
        'interleaving of pairs of short texts enumerated by stateless DFS; '
        'Hypothesis-drawn schedules for 2-3 threads and longer texts; '
        'free-running threads at 1 us switch interval incl. yaql.eval. '
        'Oracle: outcome (tree S-expression or exception class/position/'
        'value/message) equals that of an engine used for nothing else. '
        'Bounded, probabilistic for races inside one token() call.',
        'reference engine = own ply lexer clone + shallow LRParser copy + '
        'own YaqlEngine over the read-only tables of a pristine template '
        '(validated per run against factory-fresh engines on the text pool); '
        'scheduling points are token fetches', 'DESIGN.md section 2, C01'),
    'C07': (
        'library-wide canary sweep (logging host object in every parameter '
        'position, every access form, call()) with an invariant over the '
        'access log and outputs; Hypothesis-generated yaqlization settings '
        'against a policy model',
        'Generated-input search: (a) all definitions of the default context x '
        'every visible parameter position x fillings with attack strings, 90 '
        'member/index/operator forms x 11 member names, call(name, ...) x 6 '
        'argument shapes for every registered name; invariant: the only '
        'attribute names a non-yaqlized object is asked for are __class__, '
        '__yaqlization__, __unwrapped__, never __getitem__/__call__, and the '
        'secret marker never appears in results or exception texts; (b) '
        'settings (3 switches, string/regex/predicate list entries, '
        'remappings with argument maps, on instance or class) x member names '
        'x 3 forms: denied => no touch and an error, allowed => exactly one '
        'touch of exactly the predicted member. Enumerated sweep, sampled '
        'policy.',
        'the canary sees only what reaches __getattribute__/__getitem__/'
        '__call__; type-slot lookups by CPython itself are outside',
        'DESIGN.md section 2, C07'),
    'C08': (
        'library-wide sweep with an instrumented endless source in every '
        'parameter position, boundary result shapes, pipelines over endless '
        'sources, Hypothesis grow chains with payload-size recording',
        'Generated-input search: (a) all registered definitions x every '
        'visible parameter position x {direct, lambda result, nested in a '
        'list} x N, the source aborts the evaluation when pulled more than '
        'N+1 times (Python-level pull budget, watchdog for C-level loops); '
        '(b) Hypothesis shapes of host data and 22 expression templates at '
        'sizes N-1, N, N+1, both directions (over => '
        'CollectionTooLargeException, within => success, result census <= N); '
        '(c) 70 pipeline templates over endless sources; (d) 20 grow-chain '
        'templates under quota Q with every library payload wrapped to record '
        'the own size of data arguments and results, and tracemalloc around '
        'repetition. Enumerated for the sweep, sampled elsewhere.',
        'own (shallow) size only; sys.getsizeof and tracemalloc are trusted; '
        'size predictions use CPython 3.12 object sizes with 2x slack',
        'DESIGN.md section 2, C08'),
    'C09': (
        'library-wide sweep with mutable host containers in every position '
        '(snapshots, aliasing by result mutation, context-chain snapshots) + '
        'Hypothesis state machine over evaluation histories',
        'Generated-input search: (a) every registered definition x fillings x '
        '{data through $ with input conversion on, off; context variables}: '
        'deep snapshots (contents and container types) of the data and of '
        'every context of the host chain before and after (also when the '
        'evaluation raises), no result container identical to a host '
        'container, mutating every container of the result leaves the host '
        'untouched, nothing but $ left in the supplied context; (b) state '
        'machine: 25 statements x 3 documents evaluated in generated order '
        '(incl. repeats, both conversion modes, library built by hand '
        'without finalizer) in fresh children of one shared parent: inputs '
        'and parent unchanged, equal results on re-evaluation.',
        'snapshots look at Context._data/_functions of plain contexts; '
        'granted yaqlized methods are out of scope',
        'DESIGN.md section 2, C09'),
    'C10': (
        'Hypothesis-generated host documents (round trip) and nested '
        'value-kind expressions under the 4 output-option pairs; type census '
        'of the finalised result; unfinalised second evaluation as the '
        'success oracle',
        'Generated-input search: documents of depth <=3 with tuples, sets, '
        'frozensets, generators and iterators substituted must round-trip '
        'through $ into canonical containers; 53 atoms x 22 wrappers '
        '(complete single-wrapper grid, Hypothesis for deeper nesting) '
        'covering every lazy/frozen value kind as element, dict value, dict '
        'key and set member; whenever the evaluation succeeds with '
        'yaql.convertOutputData off the finalised evaluation must succeed and '
        'contain only dict/list/(tuple)/(set)/scalars; YaqlInterface calls '
        'get the same census. Two structural classes (container as dict key, '
        'container in an output set) are a recorded known finding.',
        'walking the unfinalised value consumes iterators, so each case is '
        'evaluated twice from fresh data', 'DESIGN.md section 2, C10'),
    'C16': (
        'encoder round trip and decoder model over generated strings, '
        'exhaustive BMP code points (thorough), numerals and words',
        'Generated-input search: (1) every code point (ASCII/Latin-1 + seeded '
        'stride in quick, whole BMP + astral sample in thorough) alone and '
        'embedded, and Hypothesis strings biased to quotes/backslashes/'
        'look-alikes, spelled by the harness\'s own quoting function in 3 '
        'styles, must read back exactly (value and Constant.value); (2) '
        'table-driven decoder model (independent of codecs) over sequences '
        'of escapes, look-alikes and plain characters; malformed escapes '
        'must be lexical errors; (3) integers up to 4000 digits and decimals '
        'vs int()/float(); (4) identifier-shaped words incl. reserved, '
        'operator and underscore-leading ones. The grammar-inherent gap of '
        'verbatim strings is a recorded known finding.',
        'CPython int()/float()/unicodedata are the ground truth for numbers '
        'and \\N names', 'DESIGN.md section 2, C16'),
    'C13': (
        'Hypothesis-generated single calls, pipelines and algebraic laws for '
        'every collections/queries function against straight-line reference '
        'models on materialised data',
        'Generated-input search: ~150 model entries cover every registered '
        'function of the collections and queries modules (plus unpack/with): '
        'tuples, mutable lists and one-shot iterators of small integers with '
        'ties, dictionaries with nested values, sets; lambda families; '
        'integer arguments in [-len-2, len+2]; pipelines of 2-4 operators '
        'with an optional reducer; laws (take+skip partition, reverse twice, '
        'concat associativity, indexOf vs in, sort is a sorted permutation). '
        'Oracle: models/collmodel.py (ordering = explicit stable insertion '
        'sort, grouping = first-occurrence partition, ...). Sampled.',
        'characterisation entries pin what the docstrings leave open; '
        'negative positions are not judged',
        'DESIGN.md section 2, C13'),
    'C14': (
        'Hypothesis-generated pipelines over an instrumented endless source; '
        'consumption bound from a generator-based reference model',
        'Generated-input search: pipelines of 1-4 operators from the '
        'property\'s list (21 operators, 5 short-circuit reducers) with '
        'tick-instrumented lambdas from a periodic family; the harness pulls '
        'exactly k results from the unfinalised iterator; the same pipeline '
        'as plain Python generators over a counting source gives the pulls '
        'and per-lambda applications those k results require; yaql may use '
        'one more of each; results are compared too. Every operator alone x '
        'k in 0..4 is enumerated; compositions are sampled.',
        'need is defined by the straightforward lazy implementation; '
        'pipelines needing >400 source elements are excluded',
        'DESIGN.md section 2, C14'),
    'C11': (
        'probe-instrumented library sweep, Hypothesis expressions over the '
        'lazily evaluating operators against an evaluation-order model, '
        'per-element lambda contracts',
        'Generated-input search with a registered side-effecting probe '
        'tick(id, value): (a) every registered definition with every eager '
        'argument probed, positional and keyword spellings in permuted '
        'order: log = probes in source order, once each; (b) Hypothesis ASTs '
        'of depth <=4 over and/or/not/=/list/map/?./->/switch/selectCase/'
        'switchCase/coalesce/examine with a probe on every operand, log and '
        'value predicted by a model evaluator of their documented meaning; '
        '(c) 30 per-element contracts (select, where, any/all, takeWhile/'
        'skipWhile, indexWhere, toDict, groupBy, distinct, aggregate, join, '
        'generate, ...) over lists and one-shot iterators. The ordering '
        'functions\' per-comparison key evaluation is a recorded known '
        'finding.',
        'the probe is an ordinary registered function; contracts are written '
        'from the docstrings', 'DESIGN.md section 2, C11'),
    'C12': (
        'metamorphic: every registered definition (isolated clone) x typed '
        'argument tuples x all call spellings must agree',
        'Generated-input search over the live library: for each of the ~286 '
        'definitions and several fillings from the typed corpus, up to ~20 '
        'spellings (positional; every positional|keyword split point in '
        'source and reversed order; defaulted parameters omitted / skipped '
        'with empty slots / given explicitly; call(name, args, kwargs); '
        'function and method form of extension methods) are evaluated on a '
        'clone registered under a fresh name and must give equal finalised '
        'results or the same exception class; under the real names the kind '
        'rule (method-only / function-only) and the documented keyword names '
        'are checked. Enumerated over definitions, sampled over fillings.',
        'clone isolation removes overload competition (that is C05/C06); '
        'keyword names come from the harness\'s own snake->camel converter '
        'and the docstrings', 'DESIGN.md section 2, C12'),
    'C15': (
        'exhaustive all-pairs enumeration of a boundary corpus under every '
        'scalar operator against a reference model, law checks through yaql, '
        'Hypothesis random scalars',
        'The finite space corpus x corpus x operator (38 values, 14 binary + 3 '
        'unary operators, variable and literal spellings) is enumerated '
        'completely in the quick tier and compared by value, type and repr '
        'with models/scalarmodel.py (written from the property statement and '
        'the operator docstrings); ordering/division laws are evaluated '
        'through yaql on all same-kind pairs (thorough: all triples); '
        'Hypothesis adds arbitrary ints, floats and strings. Exhaustive on '
        'the corpus, sampled beyond it.',
        'CPython int/float/str semantics are the ground truth for '
        'number x number and string x string results; NaN/inf excluded',
        'DESIGN.md section 2, C15'),
    'C20': (
        'Hypothesis-generated datetimes/offsets/timespans/timestamps and host '
        'tz objects; law checks against exact integer-microsecond instant '
        'arithmetic',
        'Generated-input search over 8 law families (timestamp round trips, '
        'utc, add/subtract inverses, instant equality and ordering across '
        'offsets, unit properties, naive-as-UTC twins over 31 probes), values '
        'built in the expression and bound as host objects (dateutil '
        'tzoffset/tzutc, datetime.timezone, naive). Oracle: Python aware '
        'datetime arithmetic reduced to exact integer microseconds. Sampled, '
        'not exhaustive.',
        'CPython datetime arithmetic is the ground truth for instants; float '
        'tolerances as stated in the evidence assumptions',
        'DESIGN.md section 2, C20'),
    'C18': (
        'harness-owned cooperative scheduler over real threads (systematic '
        'preemption-bounded DFS, Hypothesis-drawn schedules) + free-running '
        'threads; differential against sequential baselines',
        'Generated-input search over (assignment of 60 pool statements x 3 '
        'documents to 2-4 threads, schedule). Scheduling points are function '
        'dispatch (yaql.language.runner.call), pulls from instrumented '
        'sources and FrozenDict iteration, all patched from the harness; '
        'exactly one managed thread runs at a time, so a run is a pure '
        'function of the choice sequence and replays from JSON. Systematic '
        'tier: pairs of statements, every schedule with <=2 (thorough <=3) '
        'preemptions; random tier; free-running tier at 1 us switch interval '
        'incl. yaql.eval. Oracle: every result equals the one computed alone; '
        'shared parent context chain unchanged.',
        'interleavings inside C-level calls are not controllable; the '
        'free-running tier is probabilistic', 'DESIGN.md section 2, C18'),
    'C19': (
        'Hypothesis-generated single calls of every strings/regex function '
        'against an independent index-arithmetic model; exhaustive '
        'characters() flag sets',
        'Generated-input search: strings over a 6-letter alphabet plus '
        'unicode samples, boundary start/length/count arguments, generated '
        'regex family with numbered, named and non-participating groups x 8 '
        'flag sets x 10 selector forms; oracle models/strmodel.py (explicit '
        'loops on Python strings, match records/splits/substitutions built '
        'from re.finditer) plus the split/join and split/searchAll '
        'interleave laws; all 4096 characters() flag combinations '
        'enumerated. Sampled apart from that enumeration.',
        'CPython re is the matching engine in model and implementation; '
        'str.upper/lower likewise', 'DESIGN.md section 2, C19'),
    'C17': (
        'Hypothesis rule-based state machine over context forests compared '
        'after every step with a flattened-layers reference model',
        'Stateful generated-input search: histories of root/child/multi/'
        'linked creation, set, delete, register (exclusive or not) and '
        'delete_function over up to 12 contexts; after every step every '
        'context is read back through the public interface (8 variable '
        'spellings incl. $, $1, empty; 5 function spellings; '
        'collect_functions with and without predicate) and compared with '
        'models/ctxmodel.py. Histories shrink as one value and replay from '
        'JSON. Sampled, bounded by steps and forest size.',
        'model assumptions listed in the evidence (delete_function clears '
        'exclusivity; merge semantics of del through a multi-context)',
        'DESIGN.md section 2, C17'),
    'C04': (
        'Hypothesis grammar-based program generation with static scope '
        'tracking, differential against an independent (lazy-aware) '
        'reference interpreter',
        'Generated-input search over typed ASTs of depth <=5 (thorough <=6) '
        'rendered to YAQL text and JSON-like documents: literals, variables, '
        'list/map/index expressions, member access and projection, method '
        'chains with one- and two-argument lambdas, lazily evaluated '
        'zero-argument operands, let/with/unpack/def/->. The generator '
        'tracks the static scope and produces shadowing, outer-frame reads, '
        'unbound names, closures whose free variables are re-bound at the '
        'call site, closures called with different arities and recursion '
        'on purpose (feature rates are in the evidence). Oracle: '
        'models/refinterp.py (frames, lexical closures, $ = $1, missing = '
        'null, one-shot lazy sequences); error iff error.',
        'exception classes are not compared; delegates mode not generated',
        'DESIGN.md section 2, C04'),
    'C05': (
        'Hypothesis-generated overload families and calls (text and API '
        'paths) against an order-free reference implementation of the '
        'written resolution rules; probe log for argument evaluation',
        'Generated-input search over (family of 1-6 overloads with hidden/'
        'default/lazy/keyword-only/*args/**kwargs parameters and lattice '
        'types, 1-4 layers, exclusivity; call derived from a definition and '
        'perturbed). Oracle: models/resolution.py predicts the payload that '
        'runs with the exact arguments it receives, or the exception class, '
        'and the tick log of eager/lazy argument evaluation. Where the '
        'property does not fix when an already-known value is type-checked '
        'the model is evaluated under all 16 stage combinations (counted). '
        'Sampled.',
        'definitions are built directly as FunctionDefinition/'
        'ParameterDefinition objects (the decorator layer is exercised by '
        'C12); Super/Delegate/YaqlInterface hidden types only as "occupies '
        'no caller position"', 'DESIGN.md section 2, C05'),
    'C06': (
        'metamorphic: Hypothesis-generated overload families evaluated under '
        'all permutations of enumeration and registration order (and across '
        'processes with different hash seeds)',
        'Generated-input search over (family, call) biased by construction '
        'to >=2 simultaneously matching candidates per layer; the harness '
        'owns the enumeration order through a Context subclass and runs '
        'every permutation of every layer (<=4 candidates, else 24), three '
        'registration orders on the unmodified Context, and in the thorough '
        'tier 8 subprocesses with different PYTHONHASHSEED and allocation '
        'padding. Oracle: one outcome (payload tag + arguments, or exception '
        'class) per (family, call). No reference model needed; C05 decides '
        'which outcome is right.',
        'order control assumes the runner only iterates what get_functions '
        'returns', 'DESIGN.md section 2, C06'),
    'C02': (
        'exhaustive short operator sequences + Hypothesis programs and '
        'custom tables, differential against an independent '
        'precedence-climbing parser that reads the operator table as data',
        'Generated-input search: token structures (atoms, calls, lists, maps, '
        'parentheses, prefix/suffix/binary operators, index expressions) '
        'rendered with random whitespace; for the default and legacy tables '
        'every sequence of <=2 (thorough <=3) infix operators x every '
        'placement of <=2 prefix operators x an index suffix is enumerated; '
        'Hypothesis adds programs of up to 12 operators and tables built by '
        'generated insert_operator sequences (homogeneous groups, aliases, '
        'word and symbol operators). Oracle: models/precedence.py builds the '
        'tree from the same token structure and factory.operators; '
        'whitespace must not change the tree; the insertion API must build '
        'the table its arguments ask for; duplicate symbols must be rejected.',
        'the model shares nothing with ply; insertion semantics are a '
        'characterisation of the documented intent',
        'DESIGN.md section 2, C02'),
    'C03': (
        'exhaustive short token sequences + Hypothesis token soups / '
        'mutations / unicode text against a validity predicate',
        'Generated-input search: every token sequence of length <=3 over the '
        'engine token alphabet (complete for the default engine in the quick '
        'tier, for 5 engines in the thorough tier), the full backslash-escape '
        'grid in three quote styles, long numerals/identifiers/nesting, '
        'Hypothesis soups, mutations and arbitrary unicode. Oracle: outcome '
        'is a Statement or a YaqlParsingException with an in-range position; '
        'token-fetch budget for termination. Bounded search, no proof of '
        'absence.',
        'ply and CPython re/codecs are trusted; termination judged by a '
        'token-fetch budget', 'DESIGN.md section 2, C03'),
}

NOT_YET = {}


# what the checks gained after the first version of the table above (see
# DESIGN.md sections 9 and 11)
ADDED = {
    'C01': 'a line-granular single-preemption tier (thread A suspended at '
           'every line event of yaql code inside its parse on a warm '
           'engine, and at first-executed lines of the first parse on a '
           'brand-new engine, while B parses). word operators glued to a parenthesis in the text pools.',
    'C02': 'the stock tables are pinned in the check; engines created '
           'part-way through an insertion sequence and used directly, via '
           'copy() and with per-call options are judged against engines of '
           'untouched factories with the same table.',
    'C03': 'engines used through per-call options and copy(); operand '
           'grids around every operator; numerals longer than the int/str '
           'conversion limit and lone surrogates as offending tokens. every digit / number character after $ and inside words.',
    'C04': 'histories of evaluations without a context (with and then '
           'without data); def names under which the library has methods.',
    'C05': 'family members are also declared through real Python '
           'signatures with specs decorators, or as one callable typed per '
           'registration through parameter_type_func; union types in the '
           'lattice; aliases and lazy keyword-only parameters. a host type with a value-dependent validator (one type object). undeclared parameters (typed from defaults, names resembling the injected ones); kinds set by registration flags; refused registrations as outcomes.',
    'C06': 'the same three ways of declaring members as C05; keyword-passed '
           'arguments, zero-argument ties, partial orders, union types. a host type with a value-dependent validator, new type objects per enumeration order. fixed zero-argument ties; members that differ only in inferred types.',
    'C07': 'the canary nested in lists and maps at every position; '
           'histories in which an auto-yaqlizing object hands out instances '
           'of slotted, plain and library classes before a never-yaqlized '
           'instance of the same class is probed. member names that end with / start with / contain a listed name.',
    'C08': 'integers as data (pow, shifts, repeated squaring, products, '
           'supplied values) under the quota; containers in hashable '
           'positions; literal templates. frozen dictionaries measured by their table; remembered collections read a second time; dictionaries consumed by another function; pull counts of the per-step accumulators over a counting source. oversize collections nested in host data or inside a result.',
    'C09': 'a fourth mode with tuples holding mutable containers, input '
           'conversion on and output conversion off (results must not '
           'alias host data); residue in the supplied context; '
           'context-less evaluations; hand-built libraries. per-evaluation contexts of the host (a variable read by helpers, overridden variable reads) and every statement in every ordered pair of them through one parsed object. engine lineages (copies / per-call options parse the same texts in every order); mutable buffers as host collections.',
    'C10': 'one options dictionary reused for several engines; contexts '
           'composed (LinkedContext, MultiContext) from a standard and a '
           'hand-made finalizer-less context after the latter was used '
           'alone; copy()/per-call option families. sparse option dictionaries; base engines with explicit options overridden by copy() / per-call options. the legacy factory first on the same option dictionary; host-specific option values of any type.',
    'C11': 'operands that fail when evaluated (trace up to the failure, '
           'exception class, nothing afterwards); method calls on yaqlized '
           'objects; generate/generateMany with decycle; ordering key '
           'selectors at most once per element. seedless accumulate laziness; mergeWith merger order. toDict selector order.',
    'C12': 'the sweep repeated in contexts created under the Python and the '
           'camelCase naming convention in one process in both creation '
           'orders with keyword names computed by a model; lazily '
           'evaluated parameters given values through positional / keyword '
           '/ call() args / call() kwargs; calls that must be refused '
           '(mandatory parameter skipped, unknown keyword) before the valid '
           'spellings on the same context. one parameter given a value at the edge of its type as literal / variable / keyword / call() argument.',
    'C13': 'collections with nulls; element types other than small integers '
           '(strings, floats, 20-digit integers, frozen dictionaries) for '
           'the 76 entries whose model is parametric in the elements '
           '(parametricity tested on the model); collection arguments as '
           'one-shot iterators; deeply nested dictionaries; which results '
           'are lists and which are lazy. host records (tuples of python lists through input conversion) as elements; mergeWith over lists with repeated items. chunks of sliceWhere / slice / splitWhere read later, reordered and twice.',
    'C14': 'distinct(keySelector), accumulate with a seed, list '
           'concatenation, selectMany over lazy and endless inners, zip '
           'passed as an argument, data supplied as one-shot iterators and '
           'unsized re-iterables; every case under a 60 s watchdog. delete() with positions before the start; any() without a predicate.',
    'C15': 'literal spellings of unary operators; combining sequences and '
           'normalisation / case-folding look-alikes in the string corpus. operands whose products exceed the int/str conversion limit.',
    'C16': 'words lexed by engines with more / fewer operator words in one '
           'process; identifier letters that are not in NFKC form. the option engine has an iterator limit of 2. decimal numerals at the upper end of the finite doubles.',
    'C17': 'a LinkedContext whose own layer is empty; own-layer reads '
           '(ask_parent=False) with defaults. directed histories: multi-context members with different parents defining the same names, every member order, varied allocation. one definition in several contexts deleted through a multi-context.',
    'C18': 'a cold-start tier (fresh library context - also one assembled '
           'by hand without finalizer - and freshly parsed statement per '
           'run, thread A suspended at line granularity at the first '
           'execution of every line per shared object while B evaluates); '
           'nested-overlap schedules (A a points, B b points, A to its end, '
           'B); three deeply nested statements. deep statements well inside and far outside the recursion limit, baselines in a thread of their own under the same hooks. cold free-running and cold fork tiers: the first evaluations of a process made concurrently, in hundreds of forked processes.',
    'C19': 'lazily evaluated selector forms, hex, replacement dictionaries '
           'whose keys have one string form.',
    'C20': 'the process time zone is set to UTC+5:30 for the whole check; '
           'timespan arithmetic, format/parse, replace and now laws; a host '
           'zone with a varying offset for the (d + t) - t / (d + t) - d '
           'laws. .utc of instants whose UTC reading is outside the representable range. integer timestamps that could be years; max / min / orderBy order instants.',
}


def build():
    props = [json.loads(l) for l in open(os.path.join(ROOT,
                                                      'properties.jsonl'))]
    checks = []
    na = []
    for p in props:
        pid = p['id']
        if pid in CHECKS:
            tech, text, note, ref = CHECKS[pid]
            if pid in ADDED:
                text = text + ' Added while testing against seeded ' \
                    'changes: ' + ADDED[pid]
            checks.append({
                'property_id': pid,
                'quick_cmd': './check %s quick' % pid,
                'thorough_cmd': './check %s thorough' % pid,
                'evidence_file': 'evidence/%s.json' % pid,
                'replay_cmd_template': './check %s --replay {path}' % pid,
                'level_claimed': {'category': 'exploration', 'text': text,
                                  'design_ref': ref},
                'level_note': note,
                'technique': tech,
            })
        else:
            na.append({'property_id': pid, 'reason': NOT_YET.get(
                pid, 'check not built yet in this session (planned: '
                     'property-based check per DESIGN.md section 2); no claim '
                     'is made until it is registered')})
    m = {
        'version': 1,
        'setup_cmd': '/venv/bin/python -c "import hypothesis" 2>/dev/null || '
                     '/venv/bin/pip install --no-index --find-links '
                     '/opt/veriftools/wheels hypothesis',
        'hooks': {
            'guard': 'YAQL_VERIF',
            'enable': 'no source hooks: all instrumentation is installed '
                      'from the harness process (registered probe functions, '
                      'class-level patch of ply.lex.Lexer.token, Context '
                      'subclasses); checks import yaql from /repo as it is',
            'baseline_off_cmd': 'cd /repo && /venv/bin/python -m pytest -ra '
                                '-q -p no:cacheprovider --timeout=900 '
                                '--continue-on-collection-errors',
            'source_commits': [],
            'add_only': True,
        },
        'checks': checks,
        'not_applicable': na,
        'notes': 'All checks: ./check <ID> quick|thorough, VERIF_SEED '
                 'honoured, evidence rewritten on every run, replay with '
                 './check <ID> --replay <file>. Known findings: '
                 'KNOWN_FINDINGS.json. fix: commits in /repo are listed there '
                 'as status=fixed.',
    }
    with open(os.path.join(ROOT, 'MANIFEST.json'), 'w') as f:
        json.dump(m, f, indent=1)
    return m


if __name__ == '__main__':
    m = build()
    print('checks:', [c['property_id'] for c in m['checks']])
    print('not_applicable:', [c['property_id'] for c in m['not_applicable']])

"""Deterministic cooperative scheduler for real threads.

Exactly one managed thread runs at a time.  A run is a pure function of the
choice sequence; the sequence actually taken (the trace) is what a replay
file stores.  point() is called from instrumentation (token fetch, function
dispatch, source pull); for unmanaged threads it is a no-op.
"""
import threading

_local = threading.local()


class Stuck(Exception):
    pass


class _Abort(BaseException):
    pass


def point():
    w = getattr(_local, 'worker', None)
    if w is not None:
        w.park()


class _Worker:
    def __init__(self, sched, idx, fn):
        self.sched = sched
        self.idx = idx
        self.fn = fn
        self.go = threading.Semaphore(0)
        self.finished = False
        self.result = None
        self.points = 0
        self.thread = threading.Thread(target=self._main, daemon=True)

    def _main(self):
        _local.worker = self
        self.go.acquire()
        try:
            if self.sched.aborting:
                return
            try:
                self.result = ('ok', self.fn())
            except _Abort:
                self.result = ('abort', None)
            except BaseException as e:   # noqa
                self.result = ('exc', e)
        finally:
            _local.worker = None
            self.finished = True
            self.sched.back.release()

    def park(self):
        self.points += 1
        self.sched.back.release()
        self.go.acquire()
        if self.sched.aborting:
            raise _Abort()


class Scheduler:
    """run(fns, choose) -> (results, trace, info)

    choose(step, runnable, current) -> thread index to run next, where
    runnable is the sorted list of unfinished thread indices and current the
    index that ran last (None at start).
    """

    def __init__(self, timeout=10.0):
        self.timeout = timeout
        self.back = threading.Semaphore(0)
        self.aborting = False

    def run(self, fns, choose, max_steps=100000):
        workers = [_Worker(self, i, fn) for i, fn in enumerate(fns)]
        for w in workers:
            w.thread.start()
        trace = []
        alternatives = []     # per step: runnable set
        current = None
        switches = 0
        preemptions = 0
        step = 0
        try:
            while True:
                runnable = [w.idx for w in workers if not w.finished]
                if not runnable:
                    break
                if step >= max_steps:
                    raise Stuck('more than %d steps' % max_steps)
                idx = choose(step, runnable, current)
                if idx not in runnable:
                    idx = runnable[idx % len(runnable)]
                if current is not None and idx != current:
                    switches += 1
                    if current in runnable:
                        preemptions += 1
                trace.append(idx)
                alternatives.append(runnable)
                current = idx
                workers[idx].go.release()
                if not self.back.acquire(timeout=self.timeout):
                    raise Stuck('thread %d neither parked nor finished '
                                'within %.0fs' % (idx, self.timeout))
                step += 1
        except Stuck:
            self._abort(workers)
            raise
        for w in workers:
            w.thread.join(self.timeout)
        info = {'switches': switches, 'preemptions': preemptions,
                'points': [w.points for w in workers],
                'alternatives': alternatives}
        return [w.result for w in workers], trace, info

    def _abort(self, workers):
        self.aborting = True
        for w in workers:
            if not w.finished:
                w.go.release()
        for w in workers:
            w.thread.join(1.0)


def replay_chooser(prefix, sticky=True):
    """Follow prefix, then keep running the current thread (fewest
    preemptions), else the lowest runnable."""
    def choose(step, runnable, current):
        if step < len(prefix):
            c = prefix[step]
            if c in runnable:
                return c
        if sticky and current in runnable:
            return current
        return runnable[0]
    return choose


def index_chooser(choices):
    """Random mode: choices[i] indexes the runnable list modulo its length;
    0 means 'stay on the current thread if possible'."""
    def choose(step, runnable, current):
        c = choices[step] if step < len(choices) else 0
        if c == 0:
            return current if current in runnable else runnable[0]
        others = [r for r in runnable if r != current] or runnable
        return others[(c - 1) % len(others)]
    return choose


def explore(make_fns, on_run, max_runs=2000, max_preemptions=None,
            timeout=10.0):
    """Stateless DFS over schedules.

    make_fns() -> fresh list of thread functions for one execution.
    on_run(results, trace, info) is called for every complete schedule.
    Returns (runs, complete) - complete is False when max_runs cut it.
    """
    stack = [[]]
    runs = 0
    seen_prefix = set()
    while stack:
        if runs >= max_runs:
            return runs, False
        prefix = stack.pop()
        sch = Scheduler(timeout)
        results, trace, info = sch.run(make_fns(), replay_chooser(prefix))
        runs += 1
        on_run(results, trace, info)
        # count preemptions along the trace to bound alternatives
        pre = 0
        cur = None
        for step, (choice, runnable) in enumerate(
                zip(trace, info['alternatives'])):
            if step >= len(prefix):
                for alt in runnable:
                    if alt == choice:
                        continue
                    cost = pre + (1 if (cur is not None and cur in runnable
                                        and alt != cur) else 0)
                    if max_preemptions is not None and \
                            cost > max_preemptions:
                        continue
                    new = tuple(trace[:step]) + (alt,)
                    if new not in seen_prefix:
                        seen_prefix.add(new)
                        stack.append(list(new))
            if cur is not None and choice != cur and cur in runnable:
                pre += 1
            cur = choice
    return runs, True

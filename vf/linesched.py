"""Line-granular single preemption: "A up to a line event | all of B | rest
of A".

Thread A runs under sys.settrace restricted to frames whose code lives under a
path prefix (the yaql package).  Line events are numbered from 1; at event
number `at` A is suspended, thread B runs its whole body, then A resumes
untraced.  Everything is deterministic as long as A is deterministic up to the
suspension point, so a case is replayed from the number alone.

This reaches interleavings inside one token fetch / one function dispatch
(lazy initialisation, state parked on shared objects between two statements
of one function), which the cooperative scheduler of vf.sched - whose
scheduling points are the patched entry points - cannot produce.  It tries one
preemption per run only.
"""
import os
import sys
import threading


def _tracer(prefix, on_line):
    state = {'off': False}

    def local(frame, event, arg):
        if state['off']:
            return None
        if event == 'line':
            on_line(frame)
        return local

    def tracer(frame, event, arg):
        if state['off'] or event != 'call':
            return None
        if frame.f_code.co_filename.startswith(prefix):
            return local
        return None
    return tracer, state


def events(fn, prefix, key=None):
    """Run fn() alone under the tracer.  Returns (result, total, firsts):
    firsts = [(n, relative file, line)] for the first event of every distinct
    key(frame) (default: (file, line))."""
    seen = set()
    firsts = []
    n = [0]

    def on_line(frame):
        n[0] += 1
        code = frame.f_code
        keys = [(code.co_filename, frame.f_lineno)]
        if key is not None:
            extra = key(frame)
            if extra is not None:
                keys.append((code.co_filename, frame.f_lineno, extra))
        new = False
        for k in keys:
            if k not in seen:
                seen.add(k)
                new = True
        if new:
            firsts.append((n[0], os.path.relpath(code.co_filename, prefix),
                           frame.f_lineno))
    tracer, st_ = _tracer(prefix, on_line)
    sys.settrace(tracer)
    try:
        res = fn()
    finally:
        sys.settrace(None)
        st_['off'] = True
    return res, n[0], firsts


def run_preempted(fn_a, fn_b, at, prefix, timeout=60, suspend=2.0):
    """Returns (result_a, result_b, fired, where) or None when a thread got
    stuck.  Results are ('ok', value) / ('exc', exception).  at=0: B simply
    runs after A.

    If B does not finish within `suspend` seconds while A is suspended (B
    waits for something A holds, e.g. a lock - blocking is legitimate), A is
    resumed and both run on freely; the outcomes are still judged, `fired`
    is then 'blocked'."""
    b_go, b_done = threading.Event(), threading.Event()
    res = {}
    n = [0]
    fired = [False]
    where = [None]

    def on_line(frame):
        n[0] += 1
        if n[0] == at and not fired[0]:
            fired[0] = True
            st_['off'] = True
            where[0] = (os.path.relpath(frame.f_code.co_filename, prefix),
                        frame.f_lineno)
            b_go.set()
            if not b_done.wait(suspend):
                fired[0] = 'blocked'

    tracer, st_ = _tracer(prefix, on_line)

    def wrap(fn):
        try:
            return ('ok', fn())
        except BaseException as e:   # noqa
            return ('exc', e)

    def thread_a():
        sys.settrace(tracer)
        try:
            res['a'] = wrap(fn_a)
        finally:
            sys.settrace(None)
            st_['off'] = True
            b_go.set()

    def thread_b():
        b_go.wait(timeout * 2)
        try:
            res['b'] = wrap(fn_b)
        finally:
            b_done.set()
    ta = threading.Thread(target=thread_a, daemon=True)
    tb = threading.Thread(target=thread_b, daemon=True)
    ta.start()
    tb.start()
    ta.join(timeout)
    tb.join(timeout)
    if 'a' not in res or 'b' not in res:
        return None
    return res['a'], res['b'], fired[0], where[0]

"""./check --selftest <ID>: sensitivity of one check.

Runs the quick tier of <ID> against every seeded change stored under
seeded/<ID>-*/ (each applied in a scratch worktree of /repo that is removed
afterwards; /repo itself is never touched) and expects a VIOLATION.  Not
registered in MANIFEST.json; it needs git worktrees under /tmp.
"""
import os
import subprocess
import sys

ROOT = os.path.dirname(os.path.dirname(os.path.abspath(__file__)))


def main(argv):
    pid = argv[0].upper()
    names = sorted(n for n in os.listdir(os.path.join(ROOT, 'seeded'))
                   if n.startswith(pid + '-'))
    if not names:
        print('no seeded changes for ' + pid)
        return 2
    missed = 0
    for n in names:
        p = subprocess.run([os.path.join(ROOT, 'tools', 'seedcheck.py'),
                            'run', n, pid], capture_output=True, text=True)
        line = [l for l in p.stdout.splitlines() if ' vs ' in l]
        print(line[0] if line else p.stdout[-300:])
        if 'DETECTED' not in (line[0] if line else ''):
            missed += 1
    print('%s: %d of %d seeded changes detected' % (
        pid, len(names) - missed, len(names)))
    return 1 if missed else 0


if __name__ == '__main__':
    sys.exit(main(sys.argv[1:]))

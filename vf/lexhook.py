"""Class-level wrapper around ply.lex.Lexer.token (covers cloned lexers).

`hook` is called before every token fetch with the lexer instance; it is a
no-op unless a check installs one (thread-local, so free-running threads of
other tiers are not disturbed).
"""
import threading

from ply import lex

_local = threading.local()
_orig = lex.Lexer.token
_installed = False


def install():
    global _installed
    if _installed:
        return
    _installed = True

    def token(self):
        h = getattr(_local, 'hook', None)
        if h is not None:
            h(self)
        return _orig(self)
    lex.Lexer.token = token


def set_hook(h):
    _local.hook = h


def clear_hook():
    _local.hook = None

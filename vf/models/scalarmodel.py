"""Reference model of scalar operators (C15), written from the property
statement and the operator docstrings.  Outcomes: ('ok', value) or
('exc', class name)."""

NOMATCH = 'NoMatchingFunctionException'


def kind(v):
    if v is None:
        return 'null'
    if isinstance(v, bool):
        return 'bool'
    if isinstance(v, int):
        return 'int'
    if isinstance(v, float):
        return 'float'
    if isinstance(v, str):
        return 'str'
    raise ValueError(v)


def isnum(v):
    return kind(v) in ('int', 'float')


def _py(fn):
    try:
        return ('ok', fn())
    except (ZeroDivisionError, OverflowError, MemoryError) as e:
        return ('exc', type(e).__name__)


def binop(op, a, b):
    ka, kb = kind(a), kind(b)
    if op in ('+', '-', '*', '/', 'mod'):
        if isnum(a) and isnum(b):
            if op == '+':
                return _py(lambda: a + b)
            if op == '-':
                return _py(lambda: a - b)
            if op == '*':
                return _py(lambda: a * b)
            if op == '/':
                if ka == 'int' and kb == 'int':
                    return _py(lambda: a // b)
                return _py(lambda: a / b)
            return _py(lambda: a % b)
        if op == '+' and ka == 'str' and kb == 'str':
            return ('ok', a + b)
        if op == '*' and ka == 'str' and kb == 'int':
            return ('rep', a, b)
        if op == '*' and ka == 'int' and kb == 'str':
            return ('rep', b, a)
        return ('exc', NOMATCH)
    if op in ('<', '<=', '>', '>='):
        if (isnum(a) and isnum(b)) or (ka == 'str' and kb == 'str'):
            return ('ok', {'<': a < b, '<=': a <= b, '>': a > b,
                           '>=': a >= b}[op])
        if ka == 'null' and kb == 'null':
            return ('ok', op in ('<=', '>='))
        if ka == 'null':
            return ('ok', op in ('<', '<='))
        if kb == 'null':
            return ('ok', op in ('>', '>='))
        return ('exc', NOMATCH)
    if op == '=':
        return ('ok', a == b)
    if op == '!=':
        return ('ok', a != b)
    if op == 'and':
        return ('ok', a and b)
    if op == 'or':
        return ('ok', a or b)
    if op == 'in':
        if ka == 'str' and kb == 'str':
            return ('ok', a in b)
        return ('exc', NOMATCH)
    raise ValueError(op)


def unop(op, a):
    if op == 'not':
        return ('ok', not a)
    if isnum(a):
        return ('ok', +a if op == '+' else -a)
    return ('exc', NOMATCH)

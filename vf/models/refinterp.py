"""Reference interpreter for the core YAQL fragment (C04), written from
doc/source/language_reference.rst and the function docstrings.

AST (tuples):
  ('int', v) ('str', v) ('kw', word) ('bool', v) ('null',)
  ('var', '$' | '$1' | '$name')
  ('list', [e...]) ('map', [(k, v)...])
  ('idx', e, i) ('idxd', e, k, default)
  ('dot', e, name) ('qdot', e, name)
  ('bin', op, a, b)   op in + - * = != < > <= >=
  ('not', a) ('and', a, b) ('or', a, b)
  ('m', recv, name, [args])          method call; lambdas are plain ASTs
  ('switch', [(cond, value)...])
  ('let', [positional], [(name, value)], body)
  ('with', [args], body)
  ('unpack', seq, [names], body)
  ('def', fname, body, rest)  ('callf', fname, [args])

Semantics: an environment is a chain of frames.  `$` is `$1`.  Lookup walks
outward, a missing variable is null.  Eager arguments are evaluated in the
caller's frame.  A lambda invoked with n >= 1 arguments runs in a fresh child
of the frame it was *written* in, with $1..$n bound; invoked with none it
binds nothing.  let/with/unpack/def produce a new frame whose parent is the
frame of the call; `->` evaluates its right side there.  def stores a closure
callable by name from that frame inward (itself included).
"""


class ModelError(Exception):
    """the model predicts that the evaluation fails"""


class Frame:
    __slots__ = ('vars', 'funcs', 'parent')

    def __init__(self, parent=None):
        self.vars = {}
        self.funcs = {}
        self.parent = parent

    def child(self):
        return Frame(self)

    def get(self, name):
        if name == '$':
            name = '$1'
        f = self
        while f is not None:
            if name in f.vars:
                return f.vars[name]
            f = f.parent
        return None

    def func(self, name):
        f = self
        while f is not None:
            if name in f.funcs:
                return f.funcs[name]
            f = f.parent
        return None


class LazySeq:
    """one-shot lazily evaluated sequence (what the streaming operators of
    the library return); errors raised while producing an element surface
    when - and only if - that element is consumed"""

    def __init__(self, gen):
        self.gen = gen

    def __iter__(self):
        return self.gen


def is_seq(v):
    return isinstance(v, (list, LazySeq))


def force(v):
    """finalisation: materialise lazily evaluated sequences at every depth"""
    if isinstance(v, (list, LazySeq)):
        return [force(x) for x in v]
    if isinstance(v, dict):
        return {k: force(w) for k, w in v.items()}
    return v


def hkey(v):
    """a dictionary key: scalars stand for themselves, lists and maps (both
    are immutable values in the language, hence usable as keys) for a
    hashable form that is equal exactly when the values are equal"""
    if isinstance(v, (list, LazySeq)):
        return ('#list', tuple(hkey(x) for x in v))
    if isinstance(v, dict):
        return ('#map', frozenset((k, hkey(w)) for k, w in v.items()))
    return v


def has_container_key(v, depth=0):
    if depth > 40:
        return False
    if isinstance(v, dict):
        return any(isinstance(k, tuple) and k[:1] in (('#list',), ('#map',))
                   for k in v) or any(has_container_key(w, depth + 1)
                                      for w in v.values())
    if isinstance(v, list):
        return any(has_container_key(x, depth + 1) for x in v)
    return False


def is_num(v):
    return isinstance(v, (int, float)) and not isinstance(v, bool)


class Interp:
    def __init__(self, budget=20000):
        self.steps = 0
        self.budget = budget

    def lam(self, body, frame, args):
        """apply a lambda written in `frame` to args"""
        f = frame.child()
        for i, a in enumerate(args, 1):
            f.vars['$%d' % i] = a
        return self.ev(body, f)

    def ev(self, n, fr):
        self.steps += 1
        if self.steps > self.budget:
            raise ModelError('budget')
        k = n[0]
        if k in ('int', 'str', 'bool'):
            return n[1]
        if k == 'kw':
            return n[1]
        if k == 'null':
            return None
        if k == 'var':
            return fr.get(n[1])
        if k == 'list':
            return [self.ev(e, fr) for e in n[1]]
        if k == 'map':
            out = {}
            for a, b in n[1]:
                out[hkey(self.ev(a, fr))] = self.ev(b, fr)
            return out
        if k == 'idx':
            c = self.ev(n[1], fr)
            i = self.ev(n[2], fr)
            if isinstance(c, list):
                if not isinstance(i, int) or isinstance(i, bool) or \
                        not -len(c) <= i < len(c):
                    raise ModelError('index')
                return c[i]
            if isinstance(c, dict):
                i = hkey(i)
                if i not in c:
                    raise ModelError('key')
                return c[i]
            raise ModelError('not indexable')
        if k == 'idxd':
            c = self.ev(n[1], fr)
            i = self.ev(n[2], fr)
            d = self.ev(n[3], fr)
            if not isinstance(c, dict):
                raise ModelError('not a dict')
            return c.get(hkey(i), d)
        if k in ('dot', 'qdot'):
            c = self.ev(n[1], fr)
            if k == 'qdot' and c is None:
                return None
            return self.member(c, n[2])
        if k == 'bin':
            a = self.ev(n[2], fr)
            b = self.ev(n[3], fr)
            return self.binop(n[1], a, b)
        if k == 'not':
            return not self.ev(n[1], fr)
        if k == 'and':
            # operands are lazily evaluated zero-argument lambdas
            a = self.lam(n[1], fr, [])
            return a and self.lam(n[2], fr, [])
        if k == 'or':
            a = self.lam(n[1], fr, [])
            return a or self.lam(n[2], fr, [])
        if k == 'switch':
            for cond, val in n[1]:
                if self.lam(cond, fr, []):
                    return self.lam(val, fr, [])
            return None
        if k == 'm':
            return self.method(n, fr)
        if k == 'qm':
            # receiver?.method(...): null receiver gives null, anything
            # else - empty and zero values included - is a method call
            if self.ev(n[1], fr) is None:
                return None
            return self.method(('m',) + tuple(n[1:]), fr)
        if k == 'let':
            new = fr.child()
            for i, e in enumerate(n[1], 1):
                new.vars['$%d' % i] = self.ev(e, fr)
            for name, e in n[2]:
                new.vars['$' + name] = self.ev(e, fr)
            return self.ev(n[3], new)
        if k == 'with':
            new = fr.child()
            for i, e in enumerate(n[1], 1):
                new.vars['$%d' % i] = self.ev(e, fr)
            return self.ev(n[2], new)
        if k == 'unpack':
            seq = self.ev(n[1], fr)
            if not is_seq(seq):
                raise ModelError('unpack of non-sequence')
            seq = list(seq)
            new = fr.child()
            names = n[2]
            if names:
                if len(names) != len(seq):
                    raise ModelError('unpack length')
                for name, v in zip(names, seq):
                    new.vars['$' + name] = v
            else:
                for i, v in enumerate(seq, 1):
                    new.vars['$%d' % i] = v
            return self.ev(n[3], new)
        if k == 'def':
            new = fr.child()
            new.funcs[n[1]] = (n[2], new)
            return self.ev(n[3], new)
        if k == 'callf':
            args = [self.ev(a, fr) for a in n[2]]
            f = fr.func(n[1])
            if f is None:
                raise ModelError('unknown function')
            body, def_frame = f
            return self.lam(body, def_frame, args)
        raise ValueError(k)

    def member(self, c, name):
        if isinstance(c, dict):
            if name not in c:
                raise ModelError('missing key')
            return c[name]
        if is_seq(c):
            return LazySeq(self.member(x, name) for x in c)
        raise ModelError('member of scalar')

    def binop(self, op, a, b):
        if op in ('=', '!='):
            r = (a == b) and (type(a) is type(b) or (is_num(a) and is_num(b))
                              or isinstance(a, bool) == isinstance(b, bool))
            r = a == b
            return r if op == '=' else not r
        if op in ('+', '-', '*'):
            if is_num(a) and is_num(b):
                return {'+': a + b, '-': a - b, '*': a * b}[op]
            if op == '+' and isinstance(a, str) and isinstance(b, str):
                return a + b
            if op == '+' and isinstance(a, list) and isinstance(b, list):
                return a + b
            if op == '+' and is_seq(a) and is_seq(b):
                return LazySeq(x for part in (a, b) for x in part)
            raise ModelError('no matching operator')
        if op in ('<', '>', '<=', '>='):
            if a is None or b is None:
                if a is None and b is None:
                    return op in ('<=', '>=')
                if a is None:
                    return op in ('<', '<=')
                return op in ('>', '>=')
            if (is_num(a) and is_num(b)) or (isinstance(a, str) and
                                             isinstance(b, str)):
                return {'<': a < b, '>': a > b, '<=': a <= b,
                        '>=': a >= b}[op]
            raise ModelError('no matching comparison')
        raise ValueError(op)

    def method(self, n, fr):
        _, recv, name, args = n[:4]     # n[4], if any: keyword spellings
        c = self.ev(recv, fr)
        if not is_seq(c):
            raise ModelError('method on non-collection')
        if name == 'select':
            return LazySeq(self.lam(args[0], fr, [x]) for x in c)
        if name == 'where':
            return LazySeq(x for x in c if self.lam(args[0], fr, [x]))
        if name == 'any':
            return any(self.lam(args[0], fr, [x]) for x in c)
        if name == 'all':
            return all(self.lam(args[0], fr, [x]) for x in c)
        if name == 'takeWhile':
            def tw():
                for x in c:
                    if not self.lam(args[0], fr, [x]):
                        return
                    yield x
            return LazySeq(tw())
        if name == 'selectMany':
            def sm():
                for x in c:
                    r = self.lam(args[0], fr, [x])
                    if is_seq(r):
                        for y in r:
                            yield y
                    else:
                        yield r
            return LazySeq(sm())
        if name == 'toDict':
            out = {}
            for x in c:
                k = hkey(self.lam(args[0], fr, [x]))
                out[k] = self.lam(args[1], fr, [x]) if len(args) > 1 else x
            return out
        if name == 'first':
            for x in c:
                return x
            raise ModelError('first of empty')
        if name == 'len':
            return sum(1 for _ in c)
        if name == 'toList':
            return list(c)
        if name == 'sum':
            items = list(c)
            if not items:
                raise ModelError('sum of empty')
            acc = items[0]
            for x in items[1:]:
                acc = self.binop('+', acc, x)
            return acc
        if name == 'aggregate':
            acc = self.ev(args[1], fr)
            for x in c:
                acc = self.lam(args[0], fr, [acc, x])
            return acc
        if name == 'join':
            other = self.ev(args[0], fr)
            if not is_seq(other):
                raise ModelError('join with non-collection')

            def jn():
                inner = None
                for x in c:
                    if inner is None:
                        inner = list(other)     # memorised on first use
                    for y in inner:
                        if self.lam(args[1], fr, [x, y]):
                            yield self.lam(args[2], fr, [x, y])
            return LazySeq(jn())
        raise ValueError(name)


# --------------------------------------------------------------------------
# rendering to YAQL text

def q(s):
    return "'" + s.replace('\\', '\\\\').replace("'", "\\'") + "'"


def render(n):
    k = n[0]
    if k == 'int':
        return str(n[1]) if n[1] >= 0 else '(%d)' % n[1]
    if k == 'str':
        return q(n[1])
    if k == 'kw':
        return n[1]
    if k == 'bool':
        return 'true' if n[1] else 'false'
    if k == 'null':
        return 'null'
    if k == 'var':
        return n[1]
    if k == 'list':
        return '[%s]' % ', '.join(render(e) for e in n[1])
    if k == 'map':
        return '{%s}' % ', '.join('%s => %s' % (render(a), render(b))
                                  for a, b in n[1])
    if k == 'idx':
        return '%s[%s]' % (atom(n[1]), render(n[2]))
    if k == 'idxd':
        return '%s[%s, %s]' % (atom(n[1]), render(n[2]), render(n[3]))
    if k == 'dot':
        return '%s.%s' % (atom(n[1]), n[2])
    if k == 'qdot':
        return '%s?.%s' % (atom(n[1]), n[2])
    if k == 'bin':
        return '(%s %s %s)' % (render(n[2]), n[1], render(n[3]))
    if k == 'not':
        return '(not %s)' % render(n[1])
    if k in ('and', 'or'):
        return '(%s %s %s)' % (render(n[1]), k, render(n[2]))
    if k == 'switch':
        return 'switch(%s)' % ', '.join('%s => %s' % (render(a), render(b))
                                        for a, b in n[1])
    if k in ('m', 'qm'):
        names = n[4] if len(n) > 4 else ()
        parts = []
        for i, a in enumerate(n[3]):
            kw = names[i] if i < len(names) else None
            parts.append(('%s => %s' % (kw, render(a))) if kw else render(a))
        return '%s%s%s(%s)' % (atom(n[1]), '.' if k == 'm' else '?.', n[2],
                               ', '.join(parts))
    if k == 'let':
        parts = [render(e) for e in n[1]] + [
            '%s => %s' % (name, render(e)) for name, e in n[2]]
        return '(let(%s) -> %s)' % (', '.join(parts), render(n[3]))
    if k == 'with':
        return '(with(%s) -> %s)' % (', '.join(render(e) for e in n[1]),
                                     render(n[2]))
    if k == 'unpack':
        return '(%s.unpack(%s) -> %s)' % (atom(n[1]), ', '.join(n[2]),
                                          render(n[3]))
    if k == 'def':
        return '(def(%s, %s) -> %s)' % (n[1], render(n[2]), render(n[3]))
    if k == 'callf':
        return '%s(%s)' % (n[1], ', '.join(render(a) for a in n[2]))
    raise ValueError(k)


def atom(n):
    t = render(n)
    if n[0] in ('var', 'list', 'map', 'idx', 'idxd', 'dot', 'qdot', 'm',
                'callf', 'str', 'switch') or t.startswith('('):
        return t
    return '(%s)' % t

"""Independent precedence-climbing parser driven by a factory's operator list
(C02).  Reads `factory.operators` as data and consumes the token structure
the generator produced (it never sees the text, ply or yaql's parser).

Rules (property statement + language reference): groups are numbered from 1
(tightest) at every () separator; a binary operator's right operand contains
only tighter operators (and, for right-associative ones, operators of its own
group); a prefix operator's operand extends over everything tighter than its
group and over right-associative operators of its own group; a suffix operator
or index expression attaches to the operand as soon as it is tighter than the
enclosing operator; parentheses override.
"""
LEFT = 'BINARY_LEFT_ASSOCIATIVE'
RIGHT = 'BINARY_RIGHT_ASSOCIATIVE'
PREFIX = 'PREFIX_UNARY'
SUFFIX = 'SUFFIX_UNARY'
NVP = 'NAME_VALUE_PAIR'

INF = 10 ** 6


class Table:
    def __init__(self, operators):
        self.binary = {}
        self.prefix = {}
        self.suffix = {}
        self.alias = {}
        self.index_group = None
        group = 1
        for rec in operators:
            if not rec:
                group += 1
                continue
            sym, typ = rec[0], rec[1]
            if typ == NVP:
                continue
            alias = rec[2] if len(rec) > 2 else None
            self.alias[sym] = alias           # the last record wins
            if sym == '[]':
                self.index_group = group
            elif sym == '{}':
                pass
            elif typ == LEFT:
                self.binary[sym] = (group, 'l')
            elif typ == RIGHT:
                self.binary[sym] = (group, 'r')
            elif typ == PREFIX:
                self.prefix[sym] = group
            elif typ == SUFFIX:
                self.suffix[sym] = group
        self.groups = group

    def name(self, sym, unary):
        a = self.alias.get(sym)
        if a is not None:
            return '*' + a
        return ('#unary_operator_' if unary else '#operator_') + sym

    def invalid(self, operators):
        """a symbol may be unary once and binary once"""
        seen = set()
        for rec in operators:
            if not rec or rec[1] == NVP:
                continue
            kind = 'u' if rec[1] in (PREFIX, SUFFIX) else 'b'
            if (rec[0], kind) in seen:
                return True
            seen.add((rec[0], kind))
        return False


class Parser:
    """tokens: list of
       ('atom', sexpr) | ('pre', sym) | ('bin', sym) | ('suf', sym) |
       ('idx', [arg token lists]) | ('paren', tokens) |
       ('call', name, [arg token lists]) | ('list', [arg token lists]) |
       ('map', [(key tokens, value tokens), ...])
    """

    def __init__(self, table, tokens):
        self.t = table
        self.toks = tokens
        self.i = 0

    def peek(self):
        return self.toks[self.i] if self.i < len(self.toks) else None

    def take(self):
        tok = self.toks[self.i]
        self.i += 1
        return tok

    def sub(self, tokens):
        p = Parser(self.t, tokens)
        r = p.expr(INF)
        assert p.i == len(tokens), 'unconsumed tokens in sub-expression'
        return r

    def args(self, arglists):
        return ''.join(' ' + self.sub(a) for a in arglists)

    def primary(self):
        tok = self.take()
        k = tok[0]
        if k == 'atom':
            return tok[1]
        if k == 'pre':
            g = self.t.prefix[tok[1]]
            operand = self.expr(g)
            return '(%s %s)' % (self.t.name(tok[1], True), operand)
        if k == 'paren':
            return self.sub(tok[1])
        if k == 'call':
            return '(%s%s)' % (tok[1], self.args(tok[2]))
        if k == 'list':
            return '(#list%s)' % self.args(tok[1])
        if k == 'map':
            return '(#map%s)' % ''.join(
                ' (=> %s %s)' % (self.sub(a), self.sub(b)) for a, b in tok[1])
        raise AssertionError('operand expected, got %r' % (tok,))

    def expr(self, limit):
        """operators of groups tighter than `limit`, plus right-associative
        ones of group `limit` itself"""
        left = self.primary()
        while True:
            tok = self.peek()
            if tok is None:
                break
            k = tok[0]
            if k == 'bin':
                g, assoc = self.t.binary[tok[1]]
                if g < limit or (g == limit and assoc == 'r'):
                    self.take()
                    right = self.expr(g)
                    left = '(%s %s %s)' % (self.t.name(tok[1], False), left,
                                           right)
                    continue
                break
            if k == 'suf':
                g = self.t.suffix[tok[1]]
                if g <= limit:
                    self.take()
                    left = '(%s %s)' % (self.t.name(tok[1], True), left)
                    continue
                break
            if k == 'idx':
                g = self.t.index_group
                if g < limit:
                    self.take()
                    left = '(#indexer %s%s)' % (left, self.args(tok[1]))
                    continue
                break
            raise AssertionError('operator expected, got %r' % (tok,))
        return left


def parse(operators, tokens):
    p = Parser(Table(operators), tokens)
    r = p.expr(INF)
    assert p.i == len(tokens), 'unconsumed tokens'
    return r


# --------------------------------------------------------------------------
# model of the operator-insertion API (characterisation of its documented
# intent: "insert an operator before or after some other existing operator")

def groups_of(operators):
    """non-empty groups, tightest first, as lists of (symbol, type, alias)"""
    out, cur = [], []
    for rec in operators:
        if not rec:
            if cur:
                out.append(cur)
            cur = []
        else:
            cur.append((rec[0], rec[1], rec[2] if len(rec) > 2 else None))
    if cur:
        out.append(cur)
    return out


def insert(groups, existing, existing_binary, sym, typ, create_group,
           alias=None):
    """new list of groups after insert_operator(...): into the group of the
    existing operator, or into a new group right after it; with no existing
    operator at the head of the table.  ValueError if not found."""
    groups = [list(g) for g in groups]
    rec = (sym, typ, alias)
    if existing is None:
        if create_group:
            groups.insert(0, [rec])
        else:
            groups[0].insert(0, rec)
        return groups
    binary = (LEFT, RIGHT)
    unary = (PREFIX, SUFFIX)
    for gi, g in enumerate(groups):
        for r in g:
            if r[0] == existing and r[1] in (
                    binary if existing_binary else unary):
                if create_group:
                    groups.insert(gi + 1, [rec])
                else:
                    g.append(rec)
                return groups
    raise ValueError('operator not found')


def same_groups(a, b):
    return [sorted(map(repr, g)) for g in a] == \
        [sorted(map(repr, g)) for g in b]

"""Flattened-layers reference model of yaql context trees (C17).

Written from the property statement and extending_yaql.rst: a context chain is
a list of layers; a plain context contributes its own layer; a multi-context
is the layer-wise merge of its members (own layers merged, parents merged
into a multi-context of parents); a linked context is its linked chain
followed by its own parent chain.
"""
MISSING = object()


def norm(name):
    if not name.startswith('$'):
        name = '$' + name
    if name == '$':
        name = '$1'
    return name


class MPlain:
    kind = 'P'

    def __init__(self, parent=None):
        self.parent = parent
        self.data = {}
        self.funcs = {}
        self.exclusive = set()

    # own layer ---------------------------------------------------------
    def own_get(self, name):
        return self.data.get(norm(name), MISSING)

    def own_contains(self, name):
        return norm(name) in self.data

    def own_keys(self):
        return list(self.data)

    def own_functions(self, name):
        name = name.rstrip('_')
        return set(self.funcs.get(name, ())), name in self.exclusive

    # writes -----------------------------------------------------------
    def set(self, name, value):
        self.data[norm(name)] = value

    def delete(self, name):
        del self.data[norm(name)]      # KeyError if absent

    def register(self, fid, name, exclusive):
        self.funcs.setdefault(name, set()).add(fid)
        if exclusive:
            self.exclusive.add(name)

    def unregister(self, fid, name):
        self.funcs.get(name, set()).discard(fid)
        self.exclusive.discard(name)

    def child(self):
        return MPlain(self)

    def shape(self):
        return 'P(%s)' % (self.parent.shape() if self.parent else '')


class MMulti:
    kind = 'M'

    def __init__(self, members):
        self.members = list(members)
        parents = [m.parent for m in self.members if m.parent is not None]
        if not parents:
            self.parent = None
        elif len(parents) == 1:
            self.parent = parents[0]
        else:
            self.parent = MMulti(parents)

    def own_get(self, name):
        for m in self.members:
            v = m.own_get(name)
            if v is not MISSING:
                return v
        return MISSING

    def own_contains(self, name):
        return any(m.own_contains(name) for m in self.members)

    def own_keys(self):
        out = []
        for m in self.members:
            for k in m.own_keys():
                if k not in out:
                    out.append(k)
        return out

    def own_functions(self, name):
        res, excl = set(), False
        for m in self.members:
            f, e = m.own_functions(name)
            res |= f
            excl = excl or e
        return res, excl

    def set(self, name, value):
        self.members[0].set(name, value)

    def delete(self, name):
        # merge semantics: the variable disappears from the merged layer
        found = False
        for m in self.members:      # a context may be listed twice
            if m.own_contains(name):
                m.delete(name)
                found = True
        if not found:
            raise KeyError(name)

    def register(self, fid, name, exclusive):
        self.members[0].register(fid, name, exclusive)

    def unregister(self, fid, name):
        for m in self.members:
            m.unregister(fid, name)

    def child(self):
        return MPlain(self)

    def shape(self):
        return 'M[%s](%s)' % (','.join(m.shape() for m in self.members),
                              self.parent.shape() if self.parent else '')


class MLinked:
    kind = 'L'

    def __init__(self, parent, linked):
        self.linked = linked
        if linked.parent is not None:
            self.parent = MLinked(parent, linked.parent)
        else:
            self.parent = parent

    def own_get(self, name):
        return self.linked.own_get(name)

    def own_contains(self, name):
        return self.linked.own_contains(name)

    def own_keys(self):
        return self.linked.own_keys()

    def own_functions(self, name):
        return self.linked.own_functions(name)

    def set(self, name, value):
        self.linked.set(name, value)

    def delete(self, name):
        self.linked.delete(name)

    def register(self, fid, name, exclusive):
        self.linked.register(fid, name, exclusive)

    def unregister(self, fid, name):
        self.linked.unregister(fid, name)

    def child(self):
        return MPlain(self)

    def shape(self):
        return 'L<%s>(%s)' % (self.linked.shape(),
                              self.parent.shape() if self.parent else '')


def lookup(ctx, name):
    """nearest layer that defines the variable, else None"""
    p = ctx
    while p is not None:
        v = p.own_get(name)
        if v is not MISSING:
            return v
        p = p.parent
    return None


def collect(ctx, name, keep=None):
    """non-empty layers nearest first, cut after an exclusive layer"""
    out = []
    p = ctx
    while p is not None:
        f, excl = p.own_functions(name)
        if keep is not None:
            f = {i for i in f if keep(i)}
        if f:
            out.append(f)
        if excl:
            break
        p = p.parent
    return out


def depth(ctx):
    d = 0
    while ctx is not None:
        d += 1
        ctx = ctx.parent
    return d

"""Reference model of the collections and queries modules (C13).

Straight-line Python on *materialised* lists / dicts / sets, written from the
docstrings; it never imports yaql.standard_library.  Entries marked char=True
pin behaviour the docstrings leave open (characterisation): they can only
report regressions.

An entry is E(template, model, args, kinds, elems, char):
  template  YAQL text; $c is the collection, $o a second collection, $n/$m
            integers, $x/$y values, {P} {S} {K} {F2} lambda sources
  model     f(L, a) -> value, or raises Err where the documentation (or the
            pinned behaviour) says the call fails
"""
import itertools


class Err(Exception):
    pass


# lambda families: name -> (yaql source, python function)
PRED = {
    'gt1': ('$ > 1', lambda x: x > 1),
    'even': ('$ mod 2 = 0', lambda x: x % 2 == 0),
    'neg': ('$ < 0', lambda x: x < 0),
    'true': ('true', lambda x: True),
    'false': ('false', lambda x: False),
    'eq2': ('$ = 2', lambda x: x == 2),
    'mod3': ('$ mod 3 = 0', lambda x: x % 3 == 0),
}
SEL = {
    'id': ('$', lambda x: x),
    'neg': ('-$', lambda x: -x),
    'mod3': ('$ mod 3', lambda x: x % 3),
    'mod2': ('$ mod 2', lambda x: x % 2),
    'dbl': ('$ * 2', lambda x: x * 2),
    'const': ('7', lambda x: 7),
    'pair': ('[$ mod 2, $]', lambda x: [x % 2, x]),
    'sq': ('$ * $', lambda x: x * x),
}
F2 = {
    'add': ('$1 + $2', lambda a, b: a + b),
    'sub': ('$1 - $2', lambda a, b: a - b),
    'mix': ('$1 * 10 + $2', lambda a, b: a * 10 + b),
    'first': ('$1', lambda a, b: a),
    'second': ('$2', lambda a, b: b),
    'max': ('max($1, $2)', lambda a, b: max(a, b)),
}
P2 = {
    'gt': ('$1 > $2', lambda a, b: a > b),
    'eq': ('$1 = $2', lambda a, b: a == b),
    'true': ('true', lambda a, b: True),
    'summod': ('($1 + $2) mod 2 = 0', lambda a, b: (a + b) % 2 == 0),
}


class E:
    def __init__(self, template, model, args=(), kinds=('tuple', 'list',
                                                        'iter'),
                 elems='int', char=False, unordered=False):
        self.template = template
        self.model = model
        self.args = tuple(args)
        self.kinds = tuple(kinds)
        self.elems = elems
        self.char = char
        self.unordered = unordered


def _raise():
    raise Err()


def _first(L, *d):
    if L:
        return L[0]
    if d:
        return d[0]
    raise Err()


def _last(L, *d):
    if L:
        return L[-1]
    if d:
        return d[0]
    raise Err()


def _single(L):
    if len(L) != 1:
        raise Err()
    return L[0]


def _nonneg(n):
    if n < 0:
        raise Err()      # characterisation: negative counts are rejected
    return n


def _distinct(L, key=lambda x: x):
    seen, out = [], []
    for x in L:
        k = key(x)
        if k not in seen:
            seen.append(k)
            out.append(x)
    return out


def _group(L, key, val=lambda x: x):
    keys, groups = [], []
    for x in L:
        k = key(x)
        if k in keys:
            groups[keys.index(k)].append(val(x))
        else:
            keys.append(k)
            groups.append([val(x)])
    return [[k, g] for k, g in zip(keys, groups)]


def _stable_sort(L, keys):
    """keys: list of (function, ascending); insertion sort = stable"""
    out = []
    for x in L:
        i = len(out)
        while i > 0 and _before(x, out[i - 1], keys):
            i -= 1
        out.insert(i, x)
    return out


def _before(a, b, keys):
    for f, asc in keys:
        ka, kb = f(a), f(b)
        if ka == kb:
            continue
        return (ka < kb) if asc else (ka > kb)
    return False


def _reduce(L, f, *seed):
    it = list(L)
    if seed:
        acc = seed[0]
    elif it:
        acc = it.pop(0)
    else:
        raise Err()
    for x in it:
        acc = f(acc, x)
    return acc


def _accumulate(L, f, *seed):
    it = list(L)
    if seed:
        acc = seed[0]
    elif it:
        acc = it.pop(0)
    else:
        raise Err()
    out = [acc]
    for x in it:
        acc = f(acc, x)
        out.append(acc)
    return out


def _slice(L, n):
    if n < 0:
        raise Err()      # characterisation
    if n == 0:
        return []        # characterisation
    return [L[i:i + n] for i in range(0, len(L), n)]


def _split_where(L, p):
    out, cur = [], []
    for x in L:
        if p(x):
            out.append(cur)
            cur = []
        else:
            cur.append(x)
    if cur:
        out.append(cur)      # characterisation: no empty trailing chunk
    return out


def _slice_where(L, p):
    out = []
    for x in L:
        v = p(x)
        if out and out[-1][0] == v:
            out[-1][1].append(x)
        else:
            out.append((v, [x]))
    return [g for _, g in out]


def _delete(L, pos, count=1):
    if count >= 0:
        return [x for i, x in enumerate(L) if not pos <= i < pos + count]
    return [x for i, x in enumerate(L) if not i >= pos]


def _replace_many(L, pos, vals, count=1):
    out, done = [], False
    for i, x in enumerate(L):
        hit = (pos <= i < pos + count) if count >= 0 else i >= pos
        if hit:
            if not done:
                out.extend(vals)
                done = True
        else:
            out.append(x)
    return out


def _insert(L, pos, vals):
    """documented for 0 <= pos; beyond the end appends"""
    if pos >= len(L):
        return L + vals
    return L[:pos] + vals + L[pos:]


def _flatten(L):
    out = []
    for x in L:
        if isinstance(x, (list, tuple)):
            out.extend(_flatten(list(x)))
        else:
            out.append(x)
    return out


def _select_many(L, f):
    out = []
    for x in L:
        r = f(x)
        if isinstance(r, (list, tuple)):
            out.extend(r)
        else:
            out.append(r)
    return out


def _zip_longest(lists, default=None):
    n = max(len(l) for l in lists)
    return [[l[i] if i < len(l) else default for l in lists]
            for i in range(n)]


def _index_of(L, x):
    for i, y in enumerate(L):
        if y == x:
            return i
    return -1


def _last_index_of(L, x):
    r = -1
    for i, y in enumerate(L):
        if y == x:
            r = i
    return r


def _merge(d1, d2, list_merge=None, item_merge=None, levels=0):
    if list_merge is None:
        list_merge = lambda a, b: _distinct(list(a) + list(b))   # noqa
    if item_merge is None:
        item_merge = lambda a, b: b   # noqa
    out = {}
    for k, v1 in d1.items():
        out[k] = v1
        if k in d2:
            v2 = d2[k]
            if levels != 1 and isinstance(v2, dict):
                if not isinstance(v1, dict):
                    raise Err()
                out[k] = _merge(v1, v2, list_merge, item_merge,
                                0 if levels == 0 else levels - 1)
            elif levels != 1 and isinstance(v2, (list, tuple)):
                if not isinstance(v1, (list, tuple)):
                    raise Err()
                out[k] = list_merge(v1, v2)
            else:
                out[k] = item_merge(v1, v2)
    for k, v2 in d2.items():
        if k not in out:
            out[k] = v2
    return out


def _generate_many(initial, children, depth_first=False, decycle=False):
    queue, out, seen = [initial], [], []
    while queue:
        item = queue.pop(0)
        if decycle:
            if item in seen:
                continue
            seen.append(item)
        out.append(item)
        if len(out) > 200:
            raise Err()
        kids = list(children(item))
        queue = kids + queue if depth_first else queue + kids
    return out


TREE = {1: [2, 3], 2: [4], 3: [4, 5], 4: [], 5: [1]}

ENTRIES = {
    # ---- filtering / projection -------------------------------------
    'where': E('$c.where({P})', lambda L, a: [x for x in L if a['P'](x)],
               ['P']),
    'filter': E('$c.filter({P})', lambda L, a: [x for x in L if a['P'](x)],
                ['P']),
    'select': E('$c.select({S})', lambda L, a: [a['S'](x) for x in L],
                ['S']),
    'map': E('$c.map({S})', lambda L, a: [a['S'](x) for x in L], ['S']),
    'selectMany': E('$c.selectMany({S})',
                    lambda L, a: _select_many(L, a['S']), ['S']),
    'skip': E('$c.skip($n)', lambda L, a: L[_nonneg(a['n']):], ['n']),
    'take': E('$c.take($n)', lambda L, a: L[:_nonneg(a['n'])], ['n']),
    'limit': E('$c.limit($n)', lambda L, a: L[:_nonneg(a['n'])], ['n']),
    'takeWhile': E('$c.takeWhile({P})', lambda L, a: list(
        itertools.takewhile(a['P'], L)), ['P']),
    'skipWhile': E('$c.skipWhile({P})', lambda L, a: list(
        itertools.dropwhile(a['P'], L)), ['P']),
    'first': E('$c.first()', lambda L, a: _first(L)),
    'first-default': E('$c.first($x)', lambda L, a: _first(L, a['x']),
                       ['x']),
    'last': E('$c.last()', lambda L, a: _last(L)),
    'last-default': E('$c.last($x)', lambda L, a: _last(L, a['x']), ['x']),
    'single': E('$c.single()', lambda L, a: _single(L)),
    'len': E('$c.len()', lambda L, a: len(L)),
    'len-fn': E('len($c)', lambda L, a: len(L)),
    'count': E('$c.count()', lambda L, a: len(L)),
    'sum': E('$c.sum()', lambda L, a: _reduce(L, lambda p, q: p + q)),
    'sum-init': E('$c.sum($x)', lambda L, a: _reduce(
        L, lambda p, q: p + q, a['x']), ['x']),
    'min': E('$c.min()', lambda L, a: _reduce(L, min)),
    'max': E('$c.max()', lambda L, a: _reduce(L, max)),
    'max-init': E('$c.max($x)', lambda L, a: _reduce(L, max, a['x']),
                  ['x']),
    'any': E('$c.any()', lambda L, a: len(L) > 0),
    'any-pred': E('$c.any({P})', lambda L, a: any(a['P'](x) for x in L),
                  ['P']),
    'all': E('$c.all()', lambda L, a: all(bool(x) for x in L)),
    'all-pred': E('$c.all({P})', lambda L, a: all(a['P'](x) for x in L),
                  ['P']),
    'concat': E('$c.concat($o)', lambda L, a: L + a['o'], ['o']),
    'concat3': E('$c.concat($o, $c2)', lambda L, a: L + a['o'] + a['c2'],
                 ['o', 'c2']),
    'plus': E('$c + $o', lambda L, a: L + a['o'], ['o']),
    'append': E('$c.append($x, $y)', lambda L, a: L + [a['x'], a['y']],
                ['x', 'y']),
    'distinct': E('$c.distinct()', lambda L, a: _distinct(L)),
    'distinct-key': E('$c.distinct({S})',
                      lambda L, a: _distinct(L, a['S']), ['S']),
    'enumerate': E('$c.enumerate()',
                   lambda L, a: [[i, x] for i, x in enumerate(L)]),
    'enumerate-start': E('$c.enumerate($n)', lambda L, a: [
        [i + a['n'], x] for i, x in enumerate(L)], ['n']),
    'reverse': E('$c.reverse()', lambda L, a: L[::-1]),
    'memorize': E('$c.memorize()', lambda L, a: L),
    'isIterable': E('[isIterable($c), isIterable($x), isIterable("ab"), '
                    'isIterable({a => 1})]',
                    lambda L, a: [True, False, False, False], ['x']),
    'member-projection': E('$c.select({k => $, j => 1}).k',
                           lambda L, a: list(L)),
    'toList': E('$c.toList()', lambda L, a: L),
    'list-fn': E('list($c, $x, $o)', lambda L, a: (
        L if a['kind'] == 'iter' else [L]) + [a['x']] + (
            a['o'] if a.get('okind') == 'iter' else [a['o']]),
        ['x', 'o'], char=True),
    'flatten': E('[$c, [$o, [$x]]].flatten()',
                 lambda L, a: L + a['o'] + [a['x']], ['o', 'x'],
                 kinds=('tuple', 'list')),
    'contains': E('$c.contains($x)', lambda L, a: a['x'] in L, ['x']),
    'in': E('$x in $c', lambda L, a: a['x'] in L, ['x']),
    'indexOf': E('$c.indexOf($x)', lambda L, a: _index_of(L, a['x']),
                 ['x']),
    'lastIndexOf': E('$c.lastIndexOf($x)',
                     lambda L, a: _last_index_of(L, a['x']), ['x']),
    'indexWhere': E('$c.indexWhere({P})', lambda L, a: next(
        (i for i, x in enumerate(L) if a['P'](x)), -1), ['P']),
    'lastIndexWhere': E('$c.lastIndexWhere({P})', lambda L, a: max(
        [i for i, x in enumerate(L) if a['P'](x)] or [-1]), ['P']),
    # ---- ordering / grouping -----------------------------------------
    'orderBy': E('$c.orderBy({S})', lambda L, a: _stable_sort(
        L, [(a['S'], True)]), ['S']),
    'orderByDescending': E('$c.orderByDescending({S})',
                           lambda L, a: _stable_sort(L, [(a['S'], False)]),
                           ['S']),
    'thenBy': E('$c.orderBy({S}).thenBy({S2})', lambda L, a: _stable_sort(
        L, [(a['S'], True), (a['S2'], True)]), ['S', 'S2']),
    'thenByDescending': E(
        '$c.orderByDescending({S}).thenByDescending({S2})',
        lambda L, a: _stable_sort(L, [(a['S'], False), (a['S2'], False)]),
        ['S', 'S2']),
    'thenBy-mixed': E(
        '$c.orderBy({S}).thenByDescending({S2}).thenBy($)',
        lambda L, a: _stable_sort(L, [(a['S'], True), (a['S2'], False),
                                      (lambda x: x, True)]), ['S', 'S2']),
    'groupBy': E('$c.groupBy({S})', lambda L, a: _group(L, a['S']), ['S']),
    'groupBy-val': E('$c.groupBy({S}, {S2})',
                     lambda L, a: _group(L, a['S'], a['S2']), ['S', 'S2']),
    'groupBy-agg': E('$c.groupBy({S}, {S2}, $.sum())', lambda L, a: [
        [k, sum(g)] for k, g in _group(L, a['S'], a['S2'])], ['S', 'S2'],
        elems='intsel'),
    'groupBy-agg-len': E('$c.groupBy({S}, aggregator => $.len())',
                         lambda L, a: [[k, len(g)] for k, g in
                                       _group(L, a['S'])], ['S']),
    'zip': E('$c.zip($o)', lambda L, a: [list(p) for p in zip(L, a['o'])],
             ['o']),
    'zip3': E('$c.zip($o, $c2)', lambda L, a: [
        list(p) for p in zip(L, a['o'], a['c2'])], ['o', 'c2']),
    'zipLongest': E('$c.zipLongest($o)',
                    lambda L, a: _zip_longest([L, a['o']]), ['o']),
    'zipLongest-default': E('$c.zipLongest($o, default => $x)',
                            lambda L, a: _zip_longest([L, a['o']], a['x']),
                            ['o', 'x']),
    'join': E('$c.join($o, {P2}, [$1, $2])', lambda L, a: [
        [x, y] for x in L for y in a['o'] if a['P2'](x, y)], ['o', 'P2']),
    'join-sel': E('$c.join($o, {P2}, {F2})', lambda L, a: [
        a['F2'](x, y) for x in L for y in a['o'] if a['P2'](x, y)],
        ['o', 'P2', 'F2']),
    # ---- splitting ------------------------------------------------------
    'slice': E('$c.slice($n)', lambda L, a: _slice(L, a['n']), ['n'],
               char=True),
    'splitWhere': E('$c.splitWhere({P})',
                    lambda L, a: _split_where(L, a['P']), ['P'], char=True),
    'sliceWhere': E('$c.sliceWhere({P})',
                    lambda L, a: _slice_where(L, a['P']), ['P']),
    # the chunks are lists of their own: they can be read in any order,
    # later and more than once
    'sliceWhere-toList': E('$c.sliceWhere({P}).toList()',
                           lambda L, a: _slice_where(L, a['P']), ['P']),
    'sliceWhere-reverse': E('$c.sliceWhere({P}).reverse()',
                            lambda L, a: _slice_where(L, a['P'])[::-1],
                            ['P']),
    'sliceWhere-twice': E(
        'let(s => $c.sliceWhere({P}).toList()) -> [$s.select($.len()), $s]',
        lambda L, a: [[len(x) for x in _slice_where(L, a['P'])],
                      _slice_where(L, a['P'])], ['P']),
    'sliceWhere-concat': E('$c.sliceWhere({P}).toList().selectMany($)',
                           lambda L, a: list(L), ['P']),
    'slice-reverse': E('$c.slice($m + 1).reverse()',
                       lambda L, a: _slice(L, a['m'] + 1)[::-1], ['m']),
    'splitWhere-reverse': E('$c.splitWhere({P}).reverse()',
                            lambda L, a: _split_where(L, a['P'])[::-1],
                            ['P']),
    'splitAt': E('$c.splitAt($n)', lambda L, a: [L[:a['n']], L[a['n']:]],
                 ['n'], char=True),
    # ---- aggregation -----------------------------------------------------
    'aggregate': E('$c.aggregate({F2})',
                   lambda L, a: _reduce(L, a['F2']), ['F2']),
    'aggregate-seed': E('$c.aggregate({F2}, $x)',
                        lambda L, a: _reduce(L, a['F2'], a['x']),
                        ['F2', 'x']),
    'reduce': E('$c.reduce({F2}, $x)',
                lambda L, a: _reduce(L, a['F2'], a['x']), ['F2', 'x']),
    'accumulate': E('$c.accumulate({F2})',
                    lambda L, a: _accumulate(L, a['F2']), ['F2']),
    'accumulate-seed': E('$c.accumulate({F2}, $x)',
                         lambda L, a: _accumulate(L, a['F2'], a['x']),
                         ['F2', 'x']),
    # ---- persistent updates of lists -------------------------------------
    'indexer': E('$c[$n]', lambda L, a: L[a['n']] if -len(L) <= a['n'] <
                 len(L) else (_ for _ in ()).throw(Err()), ['n'],
                 kinds=('tuple', 'list')),
    'insert': E('$c.insert($n, $x)', lambda L, a: _insert(
        L, _nonneg_doc(a['n']), [a['x']]), ['n', 'x']),
    'insertMany': E('$c.insertMany($n, $o)', lambda L, a: _insert(
        L, _nonneg_doc(a['n']), a['o']), ['n', 'o']),
    'replace': E('$c.replace($n, $x)', lambda L, a: _replace_many(
        L, a['n'], [a['x']]), ['n', 'x']),
    'replace-count': E('$c.replace($n, $x, $m)', lambda L, a: _replace_many(
        L, a['n'], [a['x']], a['m']), ['n', 'x', 'm']),
    'replaceMany': E('$c.replaceMany($n, $o, $m)',
                     lambda L, a: _replace_many(L, a['n'],
                                                a['o'], a['m']),
                     ['n', 'o', 'm']),
    'delete': E('$c.delete($n)', lambda L, a: _delete(
        L, a['n']), ['n']),
    'delete-count': E('$c.delete($n, $m)', lambda L, a: _delete(
        L, a['n'], a['m']), ['n', 'm']),
    'times': E('$c * $n', lambda L, a: L * a['n'], ['n'],
               kinds=('tuple', 'list')),
    'defaultIfEmpty': E('$c.defaultIfEmpty($o)',
                        lambda L, a: L if L else a['o'], ['o']),
    'cycle-take': E('$c.cycle().take($n)', lambda L, a: [
        L[i % len(L)] for i in range(_nonneg(a['n'])) if L],
        ['n'], kinds=('tuple', 'list')),
    # ---- generators ---------------------------------------------------------
    'range1': E('range($n)', lambda L, a: list(range(a['n'])), ['n'],
                kinds=('tuple',)),
    'range2': E('range($n, $m)', lambda L, a: list(range(a['n'], a['m'])),
                ['n', 'm'], kinds=('tuple',)),
    'range3': E('range($n, $m, 2)',
                lambda L, a: list(range(a['n'], a['m'], 2)), ['n', 'm'],
                kinds=('tuple',)),
    'sequence': E('sequence($n, 2).take(3)',
                  lambda L, a: [a['n'], a['n'] + 2, a['n'] + 4], ['n'],
                  kinds=('tuple',)),
    'repeat': E('$x.repeat($n)', lambda L, a: [a['x']] * _nonneg(a['n']),
                ['x', 'n'], kinds=('tuple',), char=True),
    'generate': E('generate($n, $ < 6, $ + 2)',
                  lambda L, a: list(range(a['n'], 6, 2)), ['n'],
                  kinds=('tuple',)),
    'generate-sel': E('generate($n, $ < 6, $ + 2, {S})', lambda L, a: [
        a['S'](i) for i in range(a['n'], 6, 2)], ['n', 'S'],
        kinds=('tuple',)),
    'generateMany': E('generateMany(1, $tree.get($, []), decycle => true)',
                      lambda L, a: _generate_many(
                          1, lambda i: TREE.get(i, []), decycle=True),
                      kinds=('tuple',)),
    'generateMany-df': E(
        'generateMany(1, $tree.get($, []), decycle => true, '
        'depthFirst => true)', lambda L, a: _generate_many(
            1, lambda i: TREE.get(i, []), True, True), kinds=('tuple',)),
    # ---- unpack / with ----------------------------------------------------------
    'unpack': E('$c.unpack() -> [$1, $2, $3]',
                lambda L, a: (L + [None] * 3)[:3]),
    'unpack-names': E('$c.take(2).unpack(a, b) -> [$b, $a]',
                      lambda L, a: [L[1], L[0]] if len(L) >= 2 else
                      (_ for _ in ()).throw(Err())),
    'with': E('with($c.toList(), $x) -> [$1, $2]',
              lambda L, a: [L, a['x']], ['x']),
    # ---- dictionaries ------------------------------------------------------------
    'toDict': E('$c.toDict({S})', lambda L, a: {a['S'](x): x for x in L},
                ['S'], elems='intkey'),
    'toDict-val': E('$c.toDict({S}, {S2})',
                    lambda L, a: {a['S'](x): a['S2'](x) for x in L},
                    ['S', 'S2'], elems='intkey'),
    'dict-items': E('dict($c.select([$, $ * 2]))',
                    lambda L, a: {x: x * 2 for x in L}),
    # ---- lazy inner collections that refer to parameters of an outer
    # multi-parameter lambda, gathered before they are consumed ------------------
    'join-lazy-inner': E(
        '$c.join($o, true, [$1, $o.where($ > $2 - 1)]).toList()',
        lambda L, a: [[x, [z for z in a['o'] if z > y - 1]]
                      for x in L for y in a['o']], ['o']),
    'join-lazy-inner-reversed': E(
        '$c.join($o, true, [$2, [1, 2].select($ + $1 + $2)]).reverse()',
        # (inside the inner lambda $1 is the inner element again; only $2
        # still refers to the outer lambda)
        lambda L, a: [[y, [1 + 1 + y, 2 + 2 + y]]
                      for x in L for y in a['o']][::-1], ['o']),
    'accumulate-lazy-inner': E(
        '$c.accumulate([10, 20].select($ + $2), 0).toList()',
        lambda L, a: [0] + [[10 + x, 20 + x] for x in L]),
    'aggregate-lazy-inner': E(
        '$c.aggregate([$1, [1].select($ + $2)], 0)',
        lambda L, a: _reduce(L, lambda p, q: [p, [1 + q]], 0)),
    # ---- a memorized collection traversed by overlapping consumers -----------
    'memorize-zip-self': E(
        'let(m => $c.memorize()) -> $m.zip($m)',
        lambda L, a: [[x, x] for x in L]),
    'memorize-nested-len': E(
        'let(m => $c.memorize()) -> $m.select([$, $m.len()])',
        lambda L, a: [[x, len(L)] for x in L]),
    'memorize-join-self': E(
        'let(m => $c.memorize()) -> $m.join($m, $1 = $2, $1)',
        lambda L, a: [x for x in L for y in L if x == y]),
    'memorize-where-in-self': E(
        'let(m => $c.memorize()) -> $m.where(($ + 1) in $m)',
        lambda L, a: [x for x in L if x + 1 in L]),
    'memorize-twice': E(
        'let(m => $c.memorize()) -> [$m.len(), $m.sum(0), $m.toList()]',
        lambda L, a: [len(L), sum(L), L]),
    # ---- list() / set() flatten iterators at every depth ---------------------
    'list-nested-iterators': E(
        'list($c.select(range($ mod 3)))',
        lambda L, a: [y for x in L for y in range(x % 3)]),
    'list-nested-iterators-2': E(
        'list($c.select(range(2).select(range($ + 1))))',
        lambda L, a: [z for x in L for y in range(2) for z in range(y + 1)]),
    'set-nested-iterators': E(
        'set($c.select(range($ mod 3))).orderBy($)',
        lambda L, a: sorted({y for x in L for y in range(x % 3)})),
    # ---- distinct by key on sets and key views ----------------------------
    'set-distinct-by': E(
        '$c.toSet().distinct($ mod 3).select($ mod 3).orderBy($)',
        lambda L, a: sorted({x % 3 for x in L})),
    'set-distinct-by-len': E(
        '[set(1, 2, 3, 4, 5, 6, 7).distinct($ mod 3).len(), '
        '$c.toSet().distinct($ mod 2).len(), $c.toSet().distinct().len()]',
        lambda L, a: [3, len({x % 2 for x in L}), len(set(L))],
        kinds=('tuple', 'list')),
    'keys-distinct-by': E(
        'dict($c.select([$, 1])).keys().distinct($ mod 2).len()',
        lambda L, a: len({x % 2 for x in L})),
    # ---- which results are lists and which are lazy (characterisation: the
    # next operator of a pipeline is resolved against that) -------------------
    'result-kinds': E(
        '[isList($c.skip(1)), isList($c.take(1)), isList($c.limit(1)), '
        'isList($c.where(true)), isList($c.select($)), isList($c.reverse()), '
        'isList($c.distinct()), isList($c.append(1)), isList($c.delete(0)), '
        'isList($c.replace(0, 1)), isList($c.toList()), '
        'isList($c.memorize()), isList($c.insert(0, 1))]',
        lambda L, a: [False] * 10 + [True] * 3,
        kinds=('tuple', 'list'), char=True),
    'take-then-index': E('$c.take(2)[0]', lambda L, a: _raise(),
                         kinds=('tuple', 'list'), char=True),
    'skip-then-repeat': E('$c.skip(1) * 2', lambda L, a: _raise(),
                          kinds=('tuple', 'list'), char=True),
    'take-then-insert-negative': E(
        '$c.take($n).insert(-1, 9)',
        lambda L, a: L[:_nonneg(a['n'])], ['n'], char=True),
    'skip-then-insert-negative': E(
        '$c.skip($n).insert(-2, 9)',
        lambda L, a: L[_nonneg(a['n']):], ['n'], char=True),
    # ---- collections containing nulls (null-safe lambdas only) ------------------
    'n-accumulate': E('$c.accumulate([$1, $2])',
                      lambda L, a: _accumulate(L, lambda p, q: [p, q]),
                      elems='intnull'),
    'n-accumulate-null-seed': E('$c.accumulate([$1, $2], null)',
                                lambda L, a: _accumulate(
                                    L, lambda p, q: [p, q], None),
                                elems='intnull'),
    'n-aggregate-null-seed': E('$c.aggregate([$1, $2], null)',
                               lambda L, a: _reduce(
                                   L, lambda p, q: [p, q], None),
                               elems='intnull'),
    'n-aggregate': E('$c.aggregate(coalesce($1, $2))',
                     lambda L, a: _reduce(
                         L, lambda p, q: p if p is not None else q),
                     elems='intnull'),
    'n-first-last': E('[$c.first(7), $c.last(7), $c.len()]',
                      lambda L, a: [_first(L, 7), _last(L, 7), len(L)],
                      elems='intnull', kinds=('tuple', 'list')),
    'n-indexOf': E('[$c.indexOf(null), $c.lastIndexOf(null), null in $c, '
                   '$c.contains(null)]',
                   lambda L, a: [_index_of(L, None), _last_index_of(L, None),
                                 None in L, None in L],
                   elems='intnull', kinds=('tuple', 'list')),
    'n-distinct': E('$c.distinct()', lambda L, a: _distinct(L),
                    elems='intnull'),
    'n-where-null': E('$c.where($ = null).len()',
                      lambda L, a: len([x for x in L if x is None]),
                      elems='intnull'),
    'n-where-notnull': E('$c.where($ != null)',
                         lambda L, a: [x for x in L if x is not None],
                         elems='intnull'),
    'n-select': E('$c.select(coalesce($, -9))',
                  lambda L, a: [x if x is not None else -9 for x in L],
                  elems='intnull'),
    'n-select-id': E('$c.select($)', lambda L, a: L, elems='intnull'),
    'n-reverse': E('$c.reverse()', lambda L, a: L[::-1], elems='intnull'),
    'n-append': E('$c.append(null, $x)', lambda L, a: L + [None, a['x']],
                  ['x'], elems='intnull'),
    'n-zipLongest': E('$c.zipLongest($o)',
                      lambda L, a: _zip_longest([L, a['o']]), ['o'],
                      elems='intnull'),
    'n-orderBy': E('$c.orderBy($)', lambda L, a: _stable_sort(
        L, [(lambda x: (x is not None, x if x is not None else 0), True)]),
        elems='intnull'),
    'n-groupBy': E('$c.groupBy($ = null)', lambda L, a: _group(
        L, lambda x: x is None), elems='intnull'),
    'n-toDict': E('$c.distinct().toDict($, [$])',
                  lambda L, a: {x: [x] for x in _distinct(L)},
                  elems='intnull'),
    'n-any-all': E('[$c.any($ = null), $c.all($ = null), $c.any(), '
                   '$c.takeWhile($ != null).len(), '
                   '$c.skipWhile($ != null).len()]',
                   lambda L, a: [any(x is None for x in L),
                                 all(x is None for x in L), len(L) > 0,
                                 len(list(itertools.takewhile(
                                     lambda x: x is not None, L))),
                                 len(list(itertools.dropwhile(
                                     lambda x: x is not None, L)))],
                   elems='intnull', kinds=('tuple', 'list')),
    # ---- laws ------------------------------------------------------------------------
    'law-take-skip': E('$c.take($n) + $c.skip($n)',
                       lambda L, a: (L, _nonneg(a['n']))[0], ['n'],
                       kinds=('tuple', 'list')),
    'law-reverse-twice': E('$c.reverse().reverse()', lambda L, a: L),
    'law-distinct-shorter': E('$c.distinct().len() <= $c.len()',
                              lambda L, a: True, kinds=('tuple', 'list')),
    'law-indexOf-in': E('($x in $c) = ($c.indexOf($x) >= 0)',
                        lambda L, a: True, ['x'], kinds=('tuple', 'list')),
    'law-concat-assoc': E(
        '$c.concat($o).concat($c2).toList() = '
        '$c.concat($o.concat($c2)).toList()', lambda L, a: True,
        ['o', 'c2'], kinds=('tuple', 'list')),
    'law-order-perm': E('$c.orderBy({S}).orderBy($)',
                        lambda L, a: sorted(L), ['S']),
}


def _nonneg_doc(n):
    """positions are documented for n >= 0 only; negative ones are judged by
    the cross-overload check, not by the model"""
    if n < 0:
        raise Unjudged()
    return n


class Unjudged(Exception):
    pass


# dictionaries: model(d, a) on python dicts
DICT_ENTRIES = {
    'get': E('$d.get($k)', lambda d, a: d.get(a['k'])),
    'get-default': E('$d.get($k, $x)', lambda d, a: d.get(a['k'], a['x'])),
    'indexer': E('$d[$k]', lambda d, a: d[a['k']] if a['k'] in d else
                 (_ for _ in ()).throw(Err())),
    'indexer-default': E('$d[$k, $x]', lambda d, a: d.get(a['k'], a['x'])),
    'set': E('$d.set($k, $x)', lambda d, a: dict(d, **{}) | {a['k']: a['x']}),
    'set-dict': E('$d.set($d2)', lambda d, a: d | a['d2']),
    'set-inline': E('$d.set($k => $x, zz => 1)',
                    lambda d, a: d | {a['k']: a['x'], 'zz': 1}),
    'keys': E('$d.keys()', lambda d, a: list(d.keys())),
    'values': E('$d.values()', lambda d, a: list(d.values())),
    'items': E('$d.items()', lambda d, a: [[k, v] for k, v in d.items()]),
    'len': E('$d.len()', lambda d, a: len(d)),
    'delete': E('$d.delete($k, zz)', lambda d, a: {
        k: v for k, v in d.items() if k not in (a['k'], 'zz')}),
    'deleteAll': E('$d.deleteAll([$k, $k2])', lambda d, a: {
        k: v for k, v in d.items() if k not in (a['k'], a['k2'])}),
    'deleteAll-lazy': E('$d.deleteAll([$k2, zz, $k].select($))',
                        lambda d, a: {k: v for k, v in d.items()
                                      if k not in (a['k'], a['k2'], 'zz')}),
    'deleteAll-where': E('$d.deleteAll($d.keys().where($ != $k))',
                         lambda d, a: {k: v for k, v in d.items()
                                       if k == a['k']}),
    'deleteAll-reversed': E('$d.deleteAll($d.keys().reverse().skip(1))',
                            lambda d, a: dict(list(d.items())[-1:])),
    'deleteAll-set': E('$d.deleteAll(set($k, $k2))', lambda d, a: {
        k: v for k, v in d.items() if k not in (a['k'], a['k2'])}),
    'containsKey': E('$d.containsKey($k)', lambda d, a: a['k'] in d),
    'containsValue': E('$d.containsValue($x)',
                       lambda d, a: a['x'] in list(d.values())),
    'plus': E('$d + $d2', lambda d, a: d | a['d2']),
    'mergeWith': E('$d.mergeWith($d2)', lambda d, a: _merge(d, a['d2'])),
    'mergeWith-levels': E('$d.mergeWith($d2, maxLevels => $n)',
                          lambda d, a: _merge(d, a['d2'], levels=a['n'])),
    'mergeWith-lm': E('$d.mergeWith($d2, $1 + $2)', lambda d, a: _merge(
        d, a['d2'], lambda p, q: list(p) + list(q))),
    'mergeWith-im': E('$d.mergeWith($d2, $1 + $2, $1)', lambda d, a: _merge(
        d, a['d2'], lambda p, q: list(p) + list(q), lambda p, q: p)),
    'dot': E('$d.a', lambda d, a: d['a'] if 'a' in d else
             (_ for _ in ()).throw(Err())),
    'isDict': E('[isDict($d), isList($d), isSet($d)]',
                lambda d, a: [True, False, False]),
    'map-expr': E('{$k => $x, b => $d}',
                  lambda d, a: {a['k']: a['x'], 'b': d}),
    'dict-fn': E('dict($k => $x, b => 1)',
                 lambda d, a: {a['k']: a['x'], 'b': 1}),
    'toList-items': E('$d.items().toList().len()', lambda d, a: len(d)),
}

# sets: model(s, a) on python sets
SET_ENTRIES = {
    'set-fn': E('set($x, $y, $x)', lambda s, a: {a['x'], a['y']}),
    'toSet': E('$l.toSet()', lambda s, a: set(a['l'])),
    'toSet-idem': E('$l.toSet().toSet()', lambda s, a: set(a['l'])),
    'union': E('$s.union($t)', lambda s, a: s | a['t']),
    'union-comm': E('$s.union($t) = $t.union($s)', lambda s, a: True),
    'intersect': E('$s.intersect($t)', lambda s, a: s & a['t']),
    'difference': E('$s.difference($t)', lambda s, a: s - a['t']),
    'minus': E('$s - $t', lambda s, a: s - a['t']),
    'symmetricDifference': E('$s.symmetricDifference($t)',
                             lambda s, a: s ^ a['t']),
    'add': E('$s.add($x, $y)', lambda s, a: s | {a['x'], a['y']}),
    'remove': E('$s.remove($x, $y)', lambda s, a: s - {a['x'], a['y']}),
    'len': E('$s.len()', lambda s, a: len(s)),
    'lt': E('[$s < $t, $s <= $t, $s > $t, $s >= $t]', lambda s, a: [
        s < a['t'], s <= a['t'], s > a['t'], s >= a['t']]),
    'contains': E('[$s.contains($x), $x in $s]',
                  lambda s, a: [a['x'] in s, a['x'] in s]),
    'isSet': E('[isSet($s), isList($s), isDict($s)]',
               lambda s, a: [True, False, False]),
    'plus': E('$s + $t', lambda s, a: s | a['t']),
    'len-distinct': E('$l.toSet().len() = $l.distinct().len()',
                      lambda s, a: True),
}

# operators usable inside pipelines (list -> list), all with a list result
PIPE_OPS = ['where', 'select', 'skip', 'take', 'distinct', 'reverse',
            'orderBy', 'takeWhile', 'skipWhile', 'append', 'concat',
            'selectMany', 'insert', 'delete', 'replace', 'memorize', 'toList',
            'orderByDescending']
PIPE_END = ['len', 'sum-init', 'first-default', 'last-default', 'toList',
            'any-pred', 'all-pred', 'indexOf', 'count', 'max-init']

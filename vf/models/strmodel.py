"""Reference model for yaql string and regex functions (C19).

Written from the docstrings with explicit index arithmetic and loops on
Python strings; never imports yaql.standard_library.  Regex *matching* uses
Python's re (that is the documented semantics) but match records, splitting
and substitution are assembled here from finditer().
"""
import re
import string as _string

ERR = ('err',)


def ystr(v):
    if v is None:
        return 'null'
    if v is True:
        return 'true'
    if v is False:
        return 'false'
    return str(v)


def _find(s, sub, lo, hi):
    """first index i with lo <= i, i + len(sub) <= hi and s[i:..] == sub"""
    n, m = len(s), len(sub)
    lo = max(lo, 0)
    hi = min(hi, n)
    i = lo
    while i + m <= hi:
        if s[i:i + m] == sub:
            return i
        i += 1
    return -1


def _rfind(s, sub, lo, hi):
    n, m = len(s), len(sub)
    lo = max(lo, 0)
    hi = min(hi, n)
    i = hi - m
    while i >= lo:
        if s[i:i + m] == sub:
            return i
        i -= 1
    return -1


def substring(s, start, length=-1):
    n = len(s)
    if length < 0:
        length = n
    if start < 0:
        start += n
    out = []
    for i in range(max(start, 0), min(start + length, n)):
        out.append(s[i])
    return ''.join(out)


def index_of(s, sub, start=0):
    n = len(s)
    if start < 0:
        start = max(start + n, 0)
    if start > n:
        return -1
    return _find(s, sub, start, n)


def index_of3(s, sub, start, length):
    n = len(s)
    if start < 0:
        start += n
    if length < 0:
        length = n - start
    if start > n:
        return -1
    return _find(s, sub, start, start + length)


def last_index_of(s, sub, start=0):
    n = len(s)
    if start < 0:
        start = max(start + n, 0)
    if start > n:
        return -1
    return _rfind(s, sub, start, n)


def last_index_of3(s, sub, start, length):
    n = len(s)
    if start < 0:
        start += n
    if length < 0:
        length = n - start
    if start > n:
        return -1
    return _rfind(s, sub, start, start + length)


def split(s, sep=None, max_splits=-1):
    if sep is None:
        out = []
        i, n = 0, len(s)
        while True:
            while i < n and s[i].isspace():
                i += 1
            if i >= n:
                break
            if max_splits >= 0 and len(out) >= max_splits:
                out.append(s[i:])
                return out
            j = i
            while j < n and not s[j].isspace():
                j += 1
            out.append(s[i:j])
            i = j
        return out
    if sep == '':
        return ERR
    out = []
    i = 0
    while max_splits < 0 or len(out) < max_splits:
        j = _find(s, sep, i, len(s))
        if j < 0:
            break
        out.append(s[i:j])
        i = j + len(sep)
    out.append(s[i:])
    return out


def right_split(s, sep=None, max_splits=-1):
    if sep is None:
        out = []
        j = len(s)
        while True:
            while j > 0 and s[j - 1].isspace():
                j -= 1
            if j <= 0:
                break
            if max_splits >= 0 and len(out) >= max_splits:
                out.append(s[:j])
                break
            i = j
            while i > 0 and not s[i - 1].isspace():
                i -= 1
            out.append(s[i:j])
            j = i
        out.reverse()
        return out
    if sep == '':
        return ERR
    out = []
    j = len(s)
    while max_splits < 0 or len(out) < max_splits:
        i = _rfind(s, sep, 0, j)
        if i < 0:
            break
        out.append(s[i + len(sep):j])
        j = i
    out.append(s[:j])
    out.reverse()
    return out


def join(seq, sep):
    return sep.join(ystr(x) for x in seq)


def _strip(s, chars, left, right):
    def drop(c):
        return c.isspace() if chars is None else c in chars
    i, j = 0, len(s)
    if left:
        while i < j and drop(s[i]):
            i += 1
    if right:
        while j > i and drop(s[j - 1]):
            j -= 1
    return s[i:j]


def trim(s, chars=None):
    return _strip(s, chars, True, True)


def trim_left(s, chars=None):
    return _strip(s, chars, True, False)


def trim_right(s, chars=None):
    return _strip(s, chars, False, True)


def norm(s, chars=None):
    if s is None:
        return None
    v = trim(s, chars)
    return v if v else None


def is_empty(s, trim_spaces=True, chars=None):
    if s is None:
        return True
    if trim_spaces:
        s = trim(s, chars)
    return len(s) == 0


def replace(s, old, new, count=-1):
    if old == '':
        # python semantics: insert between all characters
        out = []
        done = 0
        for i in range(len(s) + 1):
            if count < 0 or done < count:
                out.append(new)
                done += 1
            if i < len(s):
                out.append(s[i])
        return ''.join(out)
    out = []
    i = 0
    done = 0
    while count < 0 or done < count:
        j = _find(s, old, i, len(s))
        if j < 0:
            break
        out.append(s[i:j])
        out.append(new)
        i = j + len(old)
        done += 1
    out.append(s[i:])
    return ''.join(out)


def replace_dict(s, pairs, count=-1):
    for k, v in pairs:
        s = replace(s, ystr(k), ystr(v), count)
    return s


CLASSES = {
    'digits': _string.digits, 'hexdigits': _string.hexdigits,
    'asciiLowercase': _string.ascii_lowercase,
    'asciiUppercase': _string.ascii_uppercase,
    'asciiLetters': _string.ascii_letters,
    'letters': _string.ascii_letters,
    'octdigits': _string.octdigits, 'punctuation': _string.punctuation,
    'printable': _string.printable, 'lowercase': _string.ascii_lowercase,
    'uppercase': _string.ascii_uppercase, 'whitespace': _string.whitespace,
}


def characters(flags):
    out = set()
    for name, on in flags.items():
        if on:
            out |= set(CLASSES[name])
    return out


# --------------------------------------------------------------------------
# regex

def compile_(pattern, ignore_case=False, multi_line=False, dot_all=False):
    flags = re.UNICODE
    if ignore_case:
        flags |= re.IGNORECASE
    if multi_line:
        flags |= re.MULTILINE
    if dot_all:
        flags |= re.DOTALL
    return re.compile(pattern, flags)


def record(m, g):
    return {'value': m.group(g), 'start': m.start(g), 'end': m.end(g)}


def match_env(rx, m):
    """variables published to a selector: $1 whole match, $2.. groups,
    $name named groups"""
    env = {'1': record(m, 0)}
    for i in range(1, rx.groups + 1):
        env[str(i + 1)] = record(m, i)
    for name in rx.groupindex:
        env[name] = record(m, name)
    return env


def search_all_matches(rx, s):
    return list(rx.finditer(s))


def rsplit(rx, s, max_split=0):
    out = []
    last = 0
    n = 0
    for m in rx.finditer(s):
        if max_split and n >= max_split:
            break
        out.append(s[last:m.start()])
        out.extend(m.groups())
        last = m.end()
        n += 1
    out.append(s[last:])
    return out


def rsub(rx, s, fn, count=0):
    out = []
    last = 0
    n = 0
    for m in rx.finditer(s):
        if count and n >= count:
            break
        out.append(s[last:m.start()])
        out.append(fn(m))
        last = m.end()
        n += 1
    out.append(s[last:])
    return ''.join(out)

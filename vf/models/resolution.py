"""Order-free reference model of overload resolution (C05).

Implements the written rules (extending_yaql.rst, "Function resolution
rules", refined by the property statement) on the JSON family description of
vf/resfam.py.  Nothing here looks at yaql's runner or specs.

predict(family, call, stage) -> ('ok', tag, positional, keywords, evaluated, lazy)
                              | ('exc', class name, evaluated, lazy)
where `evaluated` says whether the eager arguments were evaluated (step 5
reached) and `lazy` lists the lazily evaluated positions/keywords.  `stage`
selects the stage tolerance (see early_ok / all_stages): the property fixes
that constants are type-checked before evaluation but not when the other
values that are already known at binding time are checked, and that decides
whether a doomed candidate still takes part in the laziness-agreement rule.
"""
from vf import resfam

NOFUNC, NOMETH = 'NoFunctionRegisteredException', 'NoMethodRegisteredException'
NOMATCH_F, NOMATCH_M = ('NoMatchingFunctionException',
                        'NoMatchingMethodException')
AMBIG_F, AMBIG_M = 'AmbiguousFunctionException', 'AmbiguousMethodException'

SKIP = object()
ABSENT = object()


def accepts(tok, nullable, v, lazy=False, hidden=False):
    if hidden or lazy:
        return True
    if v is None:
        return bool(nullable)
    if tok == 'obj':
        return True
    if tok in resfam.LATTICE:
        return isinstance(v, resfam.LATTICE[tok])
    if tok == 'int':
        return isinstance(v, int)              # python int: bool included
    if tok == 'Integer':
        return isinstance(v, int) and not isinstance(v, bool)
    if tok == 'String':
        return isinstance(v, str)
    if tok == 'Number':
        return isinstance(v, (int, float)) and not isinstance(v, bool)
    if tok == 'BorD':
        return isinstance(v, (resfam.B, resfam.D))
    if tok == 'bool':
        return isinstance(v, bool)
    if tok == 'Pos':
        return isinstance(v, int) and v > 0
    raise ValueError(tok)


def more_specific(t1, t2):
    """type token t1 strictly more specific than t2 (python subclassing)"""
    if t1 is None or t2 is None:          # lazy / hidden never compare
        return False
    p1, p2 = resfam.PYTYPE[t1], resfam.PYTYPE[t2]
    m1 = p1 if isinstance(p1, tuple) else (p1,)
    m2 = p2 if isinstance(p2, tuple) else (p2,)
    if len(m1) > 1 and len(m2) > 1:
        return False        # two union types never compare
    return all(issubclass(x, m2) for x in m1) and \
        not all(issubclass(x, m1) for x in m2)


class Slot:
    """what a call position or keyword carries"""

    def __init__(self, raw):
        self.raw = raw
        self.skip = isinstance(raw, dict) and bool(raw.get('skip'))
        self.const = isinstance(raw, dict) and 'lit' in raw
        self.tick = raw['id'] if isinstance(raw, dict) and 'tick' in raw \
            else None

    @property
    def value(self):
        r = self.raw
        if self.const:
            return r['lit']
        if self.tick is not None:
            return resfam.value(r['tick'])
        return resfam.value(r)


def bind(d, pos, kws, has_receiver):
    """Binding of a call shape to one definition, or None.

    Returns dict: slots -> list of (param or 'varargs') per positional slot,
    kw -> {keyword: param or 'kwargs'}, values for payload reconstruction.
    """
    params = d['params']
    visible = [p for p in params if not p.get('hidden') and
               not p.get('kwonly')]
    kwonly = [p for p in params if p.get('kwonly') and not p.get('hidden')]
    kws = dict(kws)
    slot_param = [None] * len(pos)
    kw_param = {}
    bound = {}              # param name -> ('pos', i) | ('kw', name) | 'default'
    for i, p in enumerate(visible):
        name = p.get('alias', p['name'])
        if i < len(pos) and not pos[i].skip:
            if name in kws:
                return None
            slot_param[i] = p
            bound[p['name']] = ('pos', i)
        elif name in kws:
            kw_param[name] = p
            bound[p['name']] = ('kw', name)
            del kws[name]
            if i < len(pos):
                slot_param[i] = 'consumed-by-keyword'
        elif 'default' not in p:
            return None
        else:
            bound[p['name']] = 'default'
            if i < len(pos):
                slot_param[i] = p        # skipped slot: default, typed by p
    for i in range(len(visible), len(pos)):
        if not d.get('varargs'):
            return None
        if pos[i].skip:
            return None                   # nothing to skip to: no default
        slot_param[i] = 'varargs'
    for p in kwonly:
        name = p.get('alias', p['name'])
        if name in kws:
            kw_param[name] = p
            bound[p['name']] = ('kw', name)
            del kws[name]
        elif 'default' not in p:
            return None
        else:
            bound[p['name']] = 'default'
    own = {p['name'] for p in params}
    for name in kws:
        if not d.get('kwargs'):
            return None
        if name in own:
            # (a keyword that is the python name of one of the overload's
            # own parameters - reachable only under its alias, or hidden -
            # cannot be delivered through **kwargs: not callable this way)
            return None
        kw_param[name] = 'kwargs'
    return {'slots': slot_param, 'kw': kw_param, 'bound': bound}


def _ptype(d, p):
    if p == 'varargs':
        return d['varargs'], True, False
    if p == 'kwargs':
        return d['kwargs'], True, False
    return p['type'], p.get('nullable', False), p.get('lazy', False)


STAGE_KEYS = ('receiver', 'skipdef', 'kwconst', 'apival')


def all_stages():
    import itertools
    for bits in itertools.product((False, True), repeat=len(STAGE_KEYS)):
        yield dict(zip(STAGE_KEYS, bits))


def early_ok(d, b, pos, kws, has_receiver, stage, api):
    """type checks performed at the binding stage.

    Always early: positional constants and anything bound to **kwargs whose
    value is known (the property: constants are type-checked before
    evaluation).  Per stage toggle: the receiver, defaults of skipped slots,
    constants passed by keyword to a named parameter, python-level values of
    an API call.
    """
    for i, p in enumerate(b['slots']):
        if p is None or p == 'consumed-by-keyword':
            continue
        tok, nullable, lazy = _ptype(d, p)
        s = pos[i]
        if s.skip:
            if stage['skipdef'] and not accepts(tok, nullable, resfam.value(
                    p['default']), lazy):
                return False
        elif s.const:
            if not lazy and not accepts(tok, nullable, s.value):
                return False
        elif (has_receiver and i == 0 and stage['receiver']) or \
                (api and stage['apival'] and not (has_receiver and i == 0)):
            if not accepts(tok, nullable, s.value, lazy):
                return False
    kwv = dict(kws)
    for k, p in b['kw'].items():
        tok, nullable, lazy = _ptype(d, p)
        s = kwv[k]
        if p == 'kwargs':
            known = s.const or api
        else:
            known = (s.const and stage['kwconst']) or \
                (api and stage['apival'])
        if known and not lazy and not accepts(tok, nullable, s.value):
            return False
    return True


def lazy_set(d, b):
    out = set()
    for i, p in enumerate(b['slots']):
        if isinstance(p, dict) and p.get('lazy'):
            out.add(i)
    for k, p in b['kw'].items():
        if isinstance(p, dict) and p.get('lazy'):
            out.add(k)
    return out


def type_ok(d, b, pos, kws):
    kwv = dict(kws)
    for i, p in enumerate(b['slots']):
        if p is None or p == 'consumed-by-keyword':
            continue
        tok, nullable, lazy = _ptype(d, p)
        v = resfam.value(p['default']) if pos[i].skip else pos[i].value
        if not accepts(tok, nullable, v, lazy):
            return False
    for k, p in b['kw'].items():
        tok, nullable, lazy = _ptype(d, p)
        if not accepts(tok, nullable, kwv[k].value, lazy):
            return False
    for p in d['params']:
        if p.get('hidden'):
            continue
        if b['bound'].get(p['name']) == 'default':
            if not accepts(p['type'], p.get('nullable', False),
                           resfam.value(p['default']), p.get('lazy', False)):
                return False
    return True


def spec_vector(d, b):
    def tok(p):
        if p is None or p == 'consumed-by-keyword':
            return None
        t, _, lazy = _ptype(d, p)
        return None if lazy else t
    return [tok(p) for p in b['slots']], {k: tok(p)
                                          for k, p in b['kw'].items()}


def specializes(v1, v2):
    """binding v1 is a specialisation of v2 (strictly more specific
    somewhere, less specific nowhere)"""
    res = False
    pairs = list(zip(v1[0], v2[0])) + [(v1[1][k], v2[1][k]) for k in v1[1]]
    for a, b in pairs:
        if more_specific(b, a):
            return False
        if more_specific(a, b):
            res = True
    return res


def payload_args(d, b, pos, kws, api=False):
    kwv = dict(kws)

    def val(s, lazy):
        if lazy and api and s.value is None:
            return None           # a python-level None is "no lambda"
        return ['<lazy>', s.value] if lazy else s.value
    positional = []
    for p in d['params']:
        if p.get('kwonly'):
            continue
        if p.get('hidden'):
            positional.append('<ctx>')
            continue
        how = b['bound'][p['name']]
        lazy = p.get('lazy', False)
        if how == 'default':
            v = resfam.value(p['default'])
            positional.append(['<lazy>', v] if lazy and v is not None else v)
        elif how[0] == 'pos':
            positional.append(val(pos[how[1]], lazy))
        else:
            positional.append(val(kwv[how[1]], lazy))
    nvis = len([p for p in d['params'] if not p.get('hidden') and
                not p.get('kwonly')])
    for i in range(nvis, len(pos)):
        positional.append(pos[i].value)
    keywords = {}
    for p in d['params']:
        if not p.get('kwonly'):
            continue
        if p.get('hidden'):
            keywords[p['name']] = '<ctx>'
            continue
        how = b['bound'][p['name']]
        lazy = p.get('lazy', False)
        if how == 'default':
            v = resfam.value(p['default'])
            keywords[p['name']] = ['<lazy>', v] if lazy and v is not None \
                else v
        else:
            keywords[p['name']] = val(kwv[how[1]], lazy)
    for k, p in b['kw'].items():
        if p == 'kwargs':
            keywords[k] = kwv[k].value
    return positional, keywords


def predict(family, call, stage):
    has_receiver = 'receiver' in call
    api = call.get('via') == 'api'
    pos = [Slot(a) for a in call.get('args', [])]
    if has_receiver:
        pos = [Slot(call['receiver'])] + pos
    kws = [(k, Slot(v)) for k, v in call.get('kwargs', [])]
    amb = AMBIG_M if has_receiver else AMBIG_F
    nomatch = NOMATCH_M if has_receiver else NOMATCH_F
    # 1-2: kind filter, layers nearest first, cut after an exclusive layer
    layers = []
    for layer in range(family.get('layers', 1)):
        members = [d for d in family['defs'] if d['layer'] == layer]
        kind_ok = [d for d in members if d.get('kind', 'function') in (
            ('method', 'extension') if has_receiver
            else ('function', 'extension'))]
        if kind_ok:
            layers.append(kind_ok)
        if any(d.get('exclusive') for d in members):
            break
    if not layers:
        return ('exc', NOMETH if has_receiver else NOFUNC, False, ())
    # no_kwargs agreement of everything collected
    if len({bool(d.get('no_kwargs')) for l in layers for d in l}) > 1:
        return ('exc', amb, False, ())
    # 3: bindability (+ the type checks the stage tolerance makes early)
    bound_layers = []
    for l in layers:
        bl = []
        for d in l:
            b = bind(d, pos, kws, has_receiver)
            if b is not None and early_ok(d, b, pos, kws, has_receiver,
                                          stage, api):
                bl.append((d, b))
        if bl:
            bound_layers.append(bl)
    if not bound_layers:
        return ('exc', nomatch, False, ())
    # 4: laziness agreement across all bindable candidates of all layers
    lazies = {frozenset(lazy_set(d, b)) for bl in bound_layers
              for d, b in bl}
    if len(lazies) > 1:
        return ('exc', amb, False, ())
    lz = tuple(sorted(next(iter(lazies)), key=str))
    # 5-6: evaluate, type filter per layer, first layer with a survivor
    for bl in bound_layers:
        ok = [(d, b) for d, b in bl if type_ok(d, b, pos, kws)]
        if not ok:
            continue
        # 7: the unique survivor that specialises every other survivor
        vecs = [spec_vector(d, b) for d, b in ok]
        winners = [i for i in range(len(ok))
                   if all(i == j or specializes(vecs[i], vecs[j])
                          for j in range(len(ok)))]
        if len(winners) != 1:
            return ('exc', amb, True, lz)
        d, b = ok[winners[0]]
        positional, keywords = payload_args(d, b, pos, kws, api)
        return ('ok', d['tag'], positional, keywords, True, lz)
    return ('exc', nomatch, True, lz)


def expected_log(call, outcome):
    """(eager ids in evaluation order, lazy ids) for an outcome: the receiver
    is evaluated by the '.' operator before resolution starts; eager
    arguments only if step 5 was reached: positional left to right, then
    keywords in source order; lazy ones only when a payload forces them"""
    evaluated, lz = outcome[-2], set(outcome[-1])
    eager, lazy = [], []
    off = 0
    if 'receiver' in call:
        off = 1
        r = call['receiver']
        if isinstance(r, dict) and 'tick' in r:
            eager.append(r['id'])
    if not evaluated:
        return eager, []
    for i, a in enumerate(call.get('args', [])):
        if isinstance(a, dict) and 'tick' in a:
            (lazy if (i + off) in lz else eager).append(a['id'])
    for k, v in call.get('kwargs', []):
        if isinstance(v, dict) and 'tick' in v:
            (lazy if k in lz else eager).append(v['id'])
    return eager, (lazy if outcome[0] == 'ok' else [])

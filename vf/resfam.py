"""Overload families for C05/C06: JSON description -> real definitions.

A family is {'defs': [def...], 'layers': n, 'call': {...}}.  A def is
  {'tag', 'layer', 'kind': 'function'|'method'|'extension', 'no_kwargs',
   'exclusive', 'params': [param...], 'varargs': type|None,
   'kwargs': type|None}
and a param is
  {'name', 'type', 'nullable', 'default': absent | JSON value,
   'kwonly': bool, 'hidden': bool, 'lazy': bool}.
Types: obj A B C D int Integer String bool (lattice object>A>B>C, A>D),
the union types BorD = (B, D), Number = (int, float) without bool, and Pos =
int with the validator v > 0 (one shared type object).
Call: {'receiver': value|absent, 'args': [value | {'skip': 1}],
       'kwargs': [[name, value]...], 'via': 'text'|'api'}.
Values: {'o': 'a'|'b'|'c'|'d'} lattice instances, or JSON scalars.
"""
from yaql.language import contexts, specs, yaqltypes
from yaql.language import utils as yutils


class A:
    def __repr__(self):
        return type(self).__name__.lower()

    def __eq__(self, other):
        return type(self) is type(other)

    def __hash__(self):
        return hash(type(self).__name__)


class B(A):
    pass


class C(B):
    pass


class D(A):
    pass


LATTICE = {'A': A, 'B': B, 'C': C, 'D': D}
INSTANCES = {'a': A(), 'b': B(), 'c': C(), 'd': D()}
# supertypes (reflexive) of each type token, most specific first
# (BorD and Number are union types: PythonType over a tuple of classes)
SUPERS = {
    'C': ['C', 'B', 'BorD', 'A', 'obj'], 'B': ['B', 'BorD', 'A', 'obj'],
    'D': ['D', 'BorD', 'A', 'obj'], 'BorD': ['BorD', 'A', 'obj'],
    'A': ['A', 'obj'], 'obj': ['obj'],
    'int': ['int', 'Number', 'obj'], 'Integer': ['Integer', 'Number', 'obj'],
    'Number': ['Number', 'obj'],
    'String': ['String', 'obj'], 'bool': ['bool', 'obj'],
    'Pos': ['Pos', 'Number', 'obj'],
}
PYTYPE = {'obj': object, 'A': A, 'B': B, 'C': C, 'D': D, 'int': int,
          'Integer': int, 'String': str, 'bool': bool,
          'Number': (int, float), 'BorD': (B, D), 'Pos': int}
# a host type whose validator tells values of one class apart: integers
# greater than zero.  Hosts define such a type once and use the object
# wherever it applies, so it is one object here too (per nullability)
_POS = {}


def fresh_types():
    """forget the shared host type objects (the next family gets new ones)"""
    _POS.clear()


def make_type(tok, nullable, lazy=False):
    if lazy:
        return yaqltypes.Lambda()
    if tok == 'Integer':
        return yaqltypes.Integer(nullable=nullable)
    if tok == 'String':
        return yaqltypes.String(nullable=nullable)
    if tok == 'Number':
        return yaqltypes.Number(nullable=nullable)
    if tok == 'Pos':
        if nullable not in _POS:
            _POS[nullable] = yaqltypes.PythonType(
                int, nullable=nullable, validators=[lambda v: v > 0])
        return _POS[nullable]
    return yaqltypes.PythonType(PYTYPE[tok], nullable=nullable)


def value(v):
    if isinstance(v, dict) and 'o' in v:
        return INSTANCES[v['o']]
    return v


class OrderedContext(contexts.Context):
    """Context whose enumeration order of overloads is chosen by the harness
    (the runner only iterates what get_functions returns)."""

    def __init__(self, parent_context=None, data=yutils.NO_VALUE,
                 convention=None):
        super().__init__(parent_context, data, convention)
        self.order = []

    def get_functions(self, name, predicate=None, use_convention=False):
        fs, excl = super().get_functions(name, predicate, use_convention)
        ordered = [f for f in self.order if f in fs]
        ordered += [f for f in fs if f not in ordered]
        return ordered, excl

    def create_child_context(self):
        return contexts.Context(self)


def build_def(d, name='f'):
    """FunctionDefinition for a family member; payload returns
    [tag, positional, keywords] with hidden values replaced by markers."""
    tag = d['tag']

    def payload(*a, **kw):
        def show(x):
            if isinstance(x, contexts.ContextBase):
                return '<ctx>'
            if callable(x):
                return ['<lazy>', x()]
            return x
        return [tag, [show(x) for x in a],
                {k: show(v) for k, v in sorted(kw.items())}]

    params = {}
    pos = 0
    for p in d['params']:
        if p.get('hidden'):
            vt = yaqltypes.Context()
        else:
            vt = make_type(p['type'], p.get('nullable', False),
                           p.get('lazy', False))
        default = p['default'] if 'default' in p else specs.NO_DEFAULT
        if isinstance(default, dict) and 'o' in default:
            default = value(default)
        pd = specs.ParameterDefinition(
            p['name'], vt, None if p.get('kwonly') else pos,
            p.get('alias', p['name']), default)
        if not p.get('kwonly'):
            pos += 1
        params[p['name']] = pd
    if d.get('varargs'):
        params['*'] = specs.ParameterDefinition(
            'args', make_type(d['varargs'], True), pos, 'args',
            specs.NO_DEFAULT)
    if d.get('kwargs'):
        params['**'] = specs.ParameterDefinition(
            'kwargs', make_type(d['kwargs'], True), None, 'kwargs',
            specs.NO_DEFAULT)
    kind = d.get('kind', 'function')
    return specs.FunctionDefinition(
        name, payload, params, '', None,
        is_function=kind in ('function', 'extension'),
        is_method=kind in ('method', 'extension'),
        no_kwargs=d.get('no_kwargs', False))


def _show(x):
    if isinstance(x, contexts.ContextBase):
        return '<ctx>'
    if callable(x):
        return ['<lazy>', x()]
    return x


def build_def_declared(d, name='f', reregister=False):
    """The same family member declared the way a host does it: a Python
    function with a real signature (defaults, *args, keyword-only
    parameters, **kwargs), typed with specs.parameter decorators and turned
    into a definition by specs.get_function_definition.  None when the
    member has no such spelling (a mandatory positional parameter after a
    defaulted one)."""
    pos = [p for p in d['params'] if not p.get('kwonly')]
    kwo = [p for p in d['params'] if p.get('kwonly')]
    seen = False
    for p in pos:
        if 'default' in p:
            seen = True
        elif seen:
            return None
    if any(p.get('hidden') for p in kwo):
        return None
    dflt = {}
    for p in d['params']:
        if 'default' in p:
            v = p['default']
            dflt[p['name']] = value(v) if isinstance(v, dict) and 'o' in v \
                else v

    def part(p):
        return '%s=_d[%r]' % (p['name'], p['name']) if 'default' in p \
            else p['name']
    sig = [part(p) for p in pos]
    if d.get('varargs'):
        sig.append('*args')
    elif kwo:
        sig.append('*')
    sig += [part(p) for p in kwo]
    if d.get('kwargs'):
        sig.append('**kwargs')
    src = 'def payload(%s):\n    return [_tag, [_show(x) for x in [%s]%s], ' \
          '{k: _show(v) for k, v in sorted(dict(%s%s).items())}]\n' % (
              ', '.join(sig), ', '.join(p['name'] for p in pos),
              ' + list(args)' if d.get('varargs') else '',
              ', '.join('%s=%s' % (p['name'], p['name']) for p in kwo),
              (', ' if kwo else '') + '**kwargs' if d.get('kwargs') else '')
    ns = {'_d': dflt, '_tag': d['tag'], '_show': _show}
    exec(src, ns)
    func = ns['payload']
    for p in d['params']:
        if p.get('hidden'):
            func = specs.inject(p['name'], yaqltypes.Context())(func)
            continue
        if p.get('undeclared'):
            continue        # typed by yaql from the name and the default
        vt = make_type(p['type'], p.get('nullable', False),
                       p.get('lazy', False))
        func = specs.parameter(p['name'], vt, alias=p.get('alias'))(func)
    if d.get('varargs'):
        func = specs.parameter('args', make_type(d['varargs'], True))(func)
    if d.get('kwargs'):
        func = specs.parameter('kwargs', make_type(d['kwargs'], True))(func)
    kind = d.get('kind', 'function')
    if kind == 'method':
        func = specs.method(func)
    elif kind == 'extension':
        func = specs.extension_method(func)
    if d.get('no_kwargs'):
        func = specs.no_kwargs(func)
    if reregister:
        # the same decorated function was registered elsewhere before: in a
        # context with the camelCase naming convention, and a copy of that
        # registration had its hidden parameters stripped (both are public
        # API and must not leak into this registration)
        from yaql.language import conventions
        other = contexts.Context(convention=conventions.CamelCaseConvention())
        other.register_function(func, name=name)
        for fd0 in list(other._functions.get(name, ())):
            try:
                fd0.strip_hidden_parameters()
            except Exception:   # noqa
                pass
    return specs.get_function_definition(func, name=name)


def _simple(d):
    return not d.get('varargs') and not d.get('kwargs') and \
        not d.get('no_kwargs') and all(
            set(p) <= {'name', 'type', 'nullable'} for p in d['params'])


def build_def_shared(d, shared, name='f', tagged=True, flags=False):
    """One undecorated Python callable registered several times, each time
    with the parameter types of another family member supplied through
    parameter_type_func (a public argument of register_function /
    get_function_definition).  None for members that are not plain
    positional signatures."""
    if not _simple(d):
        return None
    kind = d.get('kind', 'function')
    key = (tuple(p['name'] for p in d['params']), kind, flags)
    if key not in shared:
        names = ', '.join(key[0])
        ns = {'_show': _show}
        exec('def payload(%s):\n    return [None, [_show(x) for x in [%s]], '
             '{}]\n' % (names, names), ns)
        func = ns['payload']
        if flags:
            # the kind is given at registration time (below); the callable
            # carries the *other* decoration, which the flags switch off
            if kind == 'function':
                func = specs.extension_method(func)
        elif kind == 'method':
            func = specs.method(func)
        elif kind == 'extension':
            func = specs.extension_method(func)
        shared[key] = func
    func = shared[key]
    types = {p['name']: p for p in d['params']}
    kw = {}
    if flags:
        kw = {'function': kind in ('function', 'extension'),
              'method': kind in ('method', 'extension')}
    fd = specs.get_function_definition(
        func, name=name, parameter_type_func=lambda n: make_type(
            types[n]['type'], types[n].get('nullable', False)), **kw)
    if tagged:
        # (report which member ran; untagged, all members keep the very
        # same payload object and only the arguments are reported)
        tag = d['tag']
        inner = fd.payload
        fd.payload = lambda *a, **kw: [tag] + inner(*a, **kw)[1:]
    return fd


def build_chain(family, base, orders=None, ordered=True, reg_order=None):
    """Chain of contexts (layer 0 nearest) holding the family.

    orders: {layer: [tag...]} enumeration order per layer (OrderedContext).
    reg_order: list of indices into family['defs'] (registration order).
    Returns (nearest context, {tag: FunctionDefinition}).
    """
    n = family.get('layers', 1)
    cls = OrderedContext if ordered else contexts.Context
    ctxs = []
    parent = base
    for layer in reversed(range(n)):
        c = cls(parent)
        ctxs.append((layer, c))
        parent = c
    by_layer = dict(ctxs)
    defs = {}
    shared = {}
    idx = reg_order if reg_order is not None else range(len(family['defs']))
    for i in idx:
        d = family['defs'][i]
        fd = None
        if family.get('decl') in ('signature', 'signature-reregistered'):
            fd = build_def_declared(
                d, reregister=family['decl'] == 'signature-reregistered')
        elif family.get('decl') in ('shared-callable', 'shared-payload',
                                    'shared-callable-flags'):
            fd = build_def_shared(
                d, shared, tagged=family['decl'] != 'shared-payload',
                flags=family['decl'] == 'shared-callable-flags')
        if fd is None:
            fd = build_def(d)
        defs[d['tag']] = fd
        by_layer[d['layer']].register_function(
            fd, exclusive=d.get('exclusive', False))
    if ordered:
        for layer, c in ctxs:
            tags = (orders or {}).get(layer) or (orders or {}).get(
                str(layer)) or []
            c.order = [defs[t] for t in tags if t in defs]
    return by_layer[0], defs


def render_call(call):
    """YAQL text and variable bindings for a call."""
    binds = {}

    def arg(v, i):
        if isinstance(v, dict) and v.get('skip'):
            return ''
        if isinstance(v, dict) and 'raw' in v:
            return v['raw']
        if isinstance(v, dict) and 'lit' in v:
            x = v['lit']
            if x is None:
                return 'null'
            if isinstance(x, bool):
                return 'true' if x else 'false'
            if isinstance(x, str):
                return "'%s'" % x
            return str(x) if x >= 0 else '(%s)' % x
        if isinstance(v, dict) and 'tick' in v:
            name = 't%d' % len(binds)
            binds[name] = value(v['tick'])
            return 'tick(%d, $%s)' % (v['id'], name)
        name = 'v%d' % len(binds)
        binds[name] = value(v)
        return '$' + name
    parts = [arg(v, i) for i, v in enumerate(call.get('args', []))]
    for k, v in call.get('kwargs', []):
        parts.append('%s => %s' % (k, arg(v, 0)))
    text = 'f(%s)' % ', '.join(parts)
    if 'receiver' in call:
        text = '%s.%s' % (arg(call['receiver'], 0), text)
    return text, binds
